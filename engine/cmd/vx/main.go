// vx: solver-based checking of the real code of couchbase/moss.
//
//	vx check <PROPERTY> [-tier quick|thorough]   run all harnesses of a property
//	vx run <harnessFn> [flags]                   run one harness (development)
//	vx replay <file>                             re-run a counterexample natively
//	vx selftest                                  translator validation
package main

import (
	"encoding/json"
	"flag"
	"fmt"
	"go/types"
	"os"
	"os/exec"
	"path/filepath"
	"runtime/pprof"
	"sort"
	"strconv"
	"strings"
	"time"

	"golang.org/x/tools/go/packages"
	"golang.org/x/tools/go/ssa"
	"golang.org/x/tools/go/ssa/ssautil"

	"vx/interp"
	"vx/smt"
)

var (
	verifDir = envOr("VERIF_DIR", "/verif")
	repoDir  = envOr("VERIF_REPO", "/repo")
)

func envOr(k, d string) string {
	if v := os.Getenv(k); v != "" {
		return v
	}
	return d
}

// ---------------------------------------------------------------- registry

type TierOpts struct {
	Preempt     int   `json:"preempt"`
	PermuteMaps bool  `json:"permute_maps"`
	SelectFork  bool  `json:"select_fork"`
	Trace       bool  `json:"trace"`
	MaxPaths    int   `json:"max_paths"`
	TimeoutS    int   `json:"timeout_s"`
	QueryMS     int   `json:"query_ms"`
	MaxSteps    int64 `json:"max_steps"`
	Skip        bool  `json:"skip"`
	Replays     int   `json:"replays"` // passing paths to re-validate natively
	// BoundsTier, when set, is the tier whose in-harness bounds (vxTier())
	// are used; e.g. a thorough entry that keeps the quick bounds because
	// the larger ones did not finish cleanly within the time limit.
	BoundsTier *int `json:"bounds_tier"`
}

type HarnessSpec struct {
	Fn       string   `json:"fn"`
	About    string   `json:"about"`
	Bounds   string   `json:"bounds"`
	Outside  string   `json:"outside"`
	Quick    TierOpts `json:"quick"`
	Thorough TierOpts `json:"thorough"`
	NoNative bool     `json:"no_native"` // harness cannot be replayed natively (stated in evidence)
	ScheduleDependent bool `json:"schedule_dependent"` // counterexamples rely on the executor's schedule of background goroutines: reported even if the native run (free-running goroutines) does not reproduce them
}

type PropSpec struct {
	Harnesses   []HarnessSpec `json:"harnesses"`
	Assumptions []string      `json:"assumptions"`
}

type KnownFinding struct {
	ID       string `json:"id"`
	Property string `json:"property"`
	Also     []string `json:"also"` // other properties whose harnesses meet the same finding
	What     string `json:"what"`
	Status   string `json:"status"` // "open" or "fixed"
	Commit   string `json:"commit,omitempty"`
}

func loadRegistry() map[string]*PropSpec {
	b, err := os.ReadFile(filepath.Join(verifDir, "harness", "registry.json"))
	if err != nil {
		fatal(2, "cannot read registry: %v", err)
	}
	r := map[string]*PropSpec{}
	if err := json.Unmarshal(b, &r); err != nil {
		fatal(2, "bad registry: %v", err)
	}
	return r
}

func loadKnown() []KnownFinding {
	b, err := os.ReadFile(filepath.Join(verifDir, "known_findings.json"))
	if err != nil {
		return nil
	}
	var k struct {
		Findings []KnownFinding `json:"findings"`
	}
	if err := json.Unmarshal(b, &k); err != nil {
		fatal(2, "bad known_findings.json: %v", err)
	}
	return k.Findings
}

func fatal(code int, f string, a ...interface{}) {
	fmt.Fprintf(os.Stderr, "vx: "+f+"\n", a...)
	os.Exit(code)
}

// ---------------------------------------------------------------- loading

type loaded struct {
	prog   *ssa.Program
	target *ssa.Package
	loadS  float64
}

func harnessFiles(native bool) map[string]string {
	// virtual path in repo -> real file
	m := map[string]string{}
	ents, err := os.ReadDir(filepath.Join(verifDir, "harness"))
	if err != nil {
		fatal(2, "harness dir: %v", err)
	}
	for _, e := range ents {
		n := e.Name()
		if !strings.HasSuffix(n, ".go") {
			continue
		}
		if strings.HasSuffix(n, "_sym.go") && native {
			continue
		}
		if strings.HasSuffix(n, "_native.go") && !native {
			continue
		}
		base := strings.TrimSuffix(n, ".go")
		v := "zz_vx_" + base + ".go"
		if native {
			v = "zz_vx_" + base + "_test.go"
		}
		m[filepath.Join(repoDir, v)] = filepath.Join(verifDir, "harness", n)
	}
	return m
}

func loadProgram() *loaded {
	t0 := time.Now()
	overlay := map[string][]byte{}
	for v, real := range harnessFiles(false) {
		b, err := os.ReadFile(real)
		if err != nil {
			fatal(2, "%v", err)
		}
		overlay[v] = b
	}
	cfg := &packages.Config{
		Mode:    packages.NeedName | packages.NeedFiles | packages.NeedCompiledGoFiles | packages.NeedImports | packages.NeedDeps | packages.NeedTypes | packages.NeedTypesSizes | packages.NeedSyntax | packages.NeedTypesInfo,
		Dir:     repoDir,
		Overlay: overlay,
		Env:     append(os.Environ(), "GOFLAGS=-mod=mod", "GOPROXY=off", "GOSUMDB=off", "GOTOOLCHAIN=local"),
	}
	pkgs, err := packages.Load(cfg, ".")
	if err != nil {
		fatal(2, "load: %v", err)
	}
	nerr := 0
	packages.Visit(pkgs, nil, func(p *packages.Package) {
		for _, e := range p.Errors {
			// bodyless harness declarations are fine for the type checker;
			// anything else is a real error
			fmt.Fprintf(os.Stderr, "vx: load error in %s: %v\n", p.PkgPath, e)
			nerr++
		}
	})
	if nerr > 0 {
		fatal(2, "package load failed (%d errors): /repo does not type-check with the harness overlay", nerr)
	}
	prog, ssapkgs := ssautil.AllPackages(pkgs, ssa.InstantiateGenerics)
	var target *ssa.Package
	for _, p := range ssapkgs {
		if p != nil && p.Pkg.Path() == interp.TargetPath {
			target = p
		}
	}
	if target == nil {
		fatal(2, "target package %s not found", interp.TargetPath)
	}
	target.Build()
	for _, p := range []string{"errors", "bytes", "sort", "io", "container/heap", "encoding/binary", "runtime"} {
		if ip := prog.ImportedPackage(p); ip != nil {
			ip.Build()
		}
	}
	return &loaded{prog: prog, target: target, loadS: time.Since(t0).Seconds()}
}

// ---------------------------------------------------------------- running

type harnessRun struct {
	Spec    HarnessSpec
	Stats   *interp.Stats
	WallS   float64
	Stubs   []string
	Replays int // native re-validations that agreed
	ReplayMismatch []string
	Cross, CrossUnknown, CrossDisagree int64
	Confirmed []string // violations confirmed natively -> replay paths
	Unconfirmed []string
}

func effTier(o TierOpts, tier int) int {
	if o.BoundsTier != nil {
		return *o.BoundsTier
	}
	return tier
}

func runHarness(ld *loaded, prop string, h HarnessSpec, tier int, known map[string]bool, seed int64) *harnessRun {
	opts := h.Quick
	if tier == 1 {
		opts = h.Thorough
	}
	cfg := &interp.Config{
		Prog: ld.prog, Target: ld.target, Sizes: types.SizesFor("gc", "amd64"),
		Z3: envOr("VX_Z3", "/usr/bin/z3"), QueryMS: opts.QueryMS, Workers: workers(),
		MaxSteps: opts.MaxSteps, MaxPaths: opts.MaxPaths, Preempt: opts.Preempt, PermuteMaps: opts.PermuteMaps, SelectFork: opts.SelectFork, Trace: opts.Trace,
		Known: known, Tier: tier, StopAtFirstViolation: true, SymbolicChoices: os.Getenv("VX_CONCRETE_CHOICES") == "",
		CrossCheckEvery: 2000,
	}
	if opts.BoundsTier != nil {
		cfg.Tier = *opts.BoundsTier
	}
	if opts.TimeoutS > 0 {
		cfg.Deadline = time.Now().Add(time.Duration(opts.TimeoutS) * time.Second)
	}
	cfg.Prepare()
	entry, err := interp.Entry(cfg, h.Fn)
	if err != nil {
		fatal(2, "%v", err)
	}
	t0 := time.Now()
	ex := interp.NewExplorer(cfg, entry)
	st := ex.Run()
	hr := &harnessRun{Spec: h, Stats: st, WallS: time.Since(t0).Seconds(), Stubs: cfg.Stubs()}
	hr.Cross, hr.CrossUnknown, hr.CrossDisagree = cfg.CrossStats()
	return hr
}

func workers() int {
	if v := os.Getenv("VX_WORKERS"); v != "" {
		n, _ := strconv.Atoi(v)
		if n > 0 {
			return n
		}
	}
	return 16
}

// ---------------------------------------------------------------- native replay

// nativeBinary builds the package test binary with the native twin of the
// harness overlaid (once per check); returns its path.
func nativeBinary() (string, string, error) {
	tmp, err := os.MkdirTemp("", "vxnative")
	if err != nil {
		return "", "", err
	}
	ov := struct {
		Replace map[string]string
	}{harnessFiles(true)}
	b, _ := json.Marshal(ov)
	ovf := filepath.Join(tmp, "overlay.json")
	os.WriteFile(ovf, b, 0644)
	bin := filepath.Join(tmp, "moss.test")
	cmd := exec.Command("go", "test", "-c", "-vet=off", "-overlay", ovf, "-o", bin, ".")
	cmd.Dir = repoDir
	cmd.Env = append(os.Environ(), "GOFLAGS=-mod=mod", "GOPROXY=off", "GOSUMDB=off", "GOTOOLCHAIN=local")
	out, err := cmd.CombinedOutput()
	if err != nil {
		return "", tmp, fmt.Errorf("native build failed: %v\n%s", err, out)
	}
	return bin, tmp, nil
}

type nativeResult struct {
	Failed []string          `json:"failed"`
	Panic  string            `json:"panic"`
	Obs    []interp.ObsRecord `json:"observations"`
	Done   bool              `json:"done"`
}

// runNativeRobust replays natively; a run that does not behave as expected
// (per ok) is retried twice with longer quiesce sleeps, because natively
// "idle" can only be approximated by waiting.
func runNativeRobust(bin, replay string, ok func(*nativeResult) bool) (*nativeResult, string, error) {
	var nr *nativeResult
	var out string
	var err error
	for _, ms := range []string{"60", "400", "1500"} {
		os.Setenv("VX_QUIESCE_MS", ms)
		nr, out, err = runNative(bin, replay)
		if err == nil && ok(nr) {
			break
		}
	}
	os.Unsetenv("VX_QUIESCE_MS")
	return nr, out, err
}

func runNative(bin string, replay string) (*nativeResult, string, error) {
	outf := replay + ".native.json"
	os.Remove(outf)
	cmd := exec.Command(bin, "-test.run", "^TestVxReplay$", "-test.count=1", "-test.timeout=120s")
	cmd.Dir = repoDir
	cmd.Env = append(os.Environ(), "VX_REPLAY="+replay, "VX_NATIVE_OUT="+outf, "VX_KNOWN="+filepath.Join(verifDir, "known_findings.json"))
	out, _ := cmd.CombinedOutput()
	b, err := os.ReadFile(outf)
	os.Remove(outf)
	if err != nil {
		// the Go runtime cannot recover from a fault on unmapped memory: the
		// test binary dies without writing its result. That IS the native
		// outcome of "read of unmapped memory" in the model.
		so := string(out)
		for _, sig := range []string{"unexpected fault address", "SIGSEGV", "SIGBUS"} {
			if strings.Contains(so, sig) {
				return &nativeResult{Panic: "process killed by a memory fault (" + sig + ")", Done: false}, so, nil
			}
		}
		return nil, string(out), fmt.Errorf("native run produced no result")
	}
	nr := &nativeResult{}
	if err := json.Unmarshal(b, nr); err != nil {
		return nil, string(out), err
	}
	return nr, string(out), nil
}

func sameObs(a, b []interp.ObsRecord) string {
	if len(a) != len(b) {
		return fmt.Sprintf("observation count %d vs %d", len(a), len(b))
	}
	for i := range a {
		if a[i].Label != b[i].Label {
			return fmt.Sprintf("observation %d label %q vs %q", i, a[i].Label, b[i].Label)
		}
		if len(a[i].Vals) != len(b[i].Vals) {
			return fmt.Sprintf("observation %s arity %d vs %d", a[i].Label, len(a[i].Vals), len(b[i].Vals))
		}
		for j := range a[i].Vals {
			if a[i].Vals[j] != b[i].Vals[j] {
				return fmt.Sprintf("observation %s[%d]: executor %d, native %d", a[i].Label, j, a[i].Vals[j], b[i].Vals[j])
			}
		}
	}
	return ""
}

// ---------------------------------------------------------------- check

type evidence struct {
	PropertyID  string                 `json:"property_id"`
	Tier        string                 `json:"tier"`
	Seed        int64                  `json:"seed"`
	Level       string                 `json:"level"`
	Coverage    map[string]interface{} `json:"coverage"`
	Assumptions []string               `json:"assumptions"`
	WallS       float64                `json:"wall_s"`
	Violations  int                    `json:"violations"`
}

func cmdCheck(args []string) {
	fs := flag.NewFlagSet("check", flag.ExitOnError)
	tierS := fs.String("tier", envOr("VERIF_TIER", "quick"), "quick|thorough")
	only := fs.String("only", "", "run only this harness")
	noNative := fs.Bool("no-native", false, "skip native re-validation (development only)")
	if len(args) < 1 {
		fatal(2, "usage: vx check <PROPERTY>")
	}
	prop := args[0]
	fs.Parse(args[1:])
	tier := 0
	if *tierS == "thorough" {
		tier = 1
	}
	seed, _ := strconv.ParseInt(envOr("VERIF_SEED", "1"), 10, 64)
	t0 := time.Now()
	reg := loadRegistry()
	ps, ok := reg[prop]
	if !ok {
		fatal(2, "property %s has no registered harness", prop)
	}
	knownList := loadKnown()
	known := map[string]bool{}
	knownWhat := map[string]string{}
	for _, k := range knownList {
		if (k.Property == prop || contains(k.Also, prop)) && k.Status == "open" {
			known[k.ID] = true
			knownWhat[k.ID] = k.What
		}
	}
	ld := loadProgram()

	var runs []*harnessRun
	violations := 0
	var inconclusive []string
	knownHit := map[string]int{}
	outDir := envOr("VX_OUT_DIR", verifDir)
	replayDir := filepath.Join(outDir, "replays")
	os.MkdirAll(replayDir, 0755)
	var bin, tmp string
	var binErr error
	needNative := !*noNative
	defer func() {
		if tmp != "" {
			os.RemoveAll(tmp)
		}
	}()
	getBin := func() (string, error) {
		if bin == "" && binErr == nil {
			bin, tmp, binErr = nativeBinary()
		}
		return bin, binErr
	}

	for _, h := range ps.Harnesses {
		if *only != "" && h.Fn != *only {
			continue
		}
		opts := h.Quick
		if tier == 1 {
			opts = h.Thorough
		}
		if opts.Skip {
			continue
		}
		r := runHarness(ld, prop, h, tier, known, seed)
		runs = append(runs, r)
		st := r.Stats
		fmt.Printf("harness %s: paths=%d discarded=%d decisions=%d queries=%d solver=%.1fs asserts=%d wall=%.1fs\n",
			h.Fn, st.Paths, st.Discarded, st.Transitions, st.Queries, float64(st.SolverNS)/1e9, st.AssertChecks, r.WallS)
		for k, n := range st.KnownHit {
			knownHit[k] += n
		}
		for _, m := range st.Inconclusive {
			inconclusive = append(inconclusive, h.Fn+": "+m)
		}
		if st.Paths == 0 && len(st.Violations) == 0 {
			inconclusive = append(inconclusive, h.Fn+": no path reached the end of the harness (vacuous)")
		}
		// violations: confirm natively
		for n, v := range st.Violations {
			rf := v.ToReplay(prop, h.Fn, effTier(opts, tier))
			name := fmt.Sprintf("%s-%s-%d.json", prop, h.Fn, n)
			path := filepath.Join(replayDir, name)
			rf.Write(path)
			confirmed := false
			why := ""
			if h.NoNative || !needNative {
				confirmed = true // stated in evidence: not natively confirmable
				why = "not replayable natively (see harness notes)"
			} else if b, err := getBin(); err != nil {
				why = err.Error()
			} else {
				nr, out, err := runNativeRobust(b, path, func(nr *nativeResult) bool {
					return (v.Kind == "violation" && len(nr.Failed) > 0) || (v.Kind == "panic" && nr.Panic != "") || (v.Kind == "deadlock" && !nr.Done)
				})
				switch {
				case err != nil:
					why = err.Error() + "\n" + out
				case v.Kind == "violation" && contains(nr.Failed, v.Label):
					confirmed = true
				case v.Kind == "violation" && len(nr.Failed) > 0:
					// the native twin observes some things differently (e.g. it
					// cannot count os.Remove calls): a failure of another
					// assertion of the same harness on the same inputs confirms
					confirmed = true
					fmt.Printf("  (native run failed assertion %v instead of %s)\n", nr.Failed, v.Label)
				case h.ScheduleDependent:
					confirmed = true
					fmt.Printf("  (not reproduced natively; the counterexample depends on the executor's schedule of the background goroutines: %v)\n", nr.Failed)
				case v.Kind == "panic" && nr.Panic != "":
					confirmed = true
				case v.Kind == "deadlock" && !nr.Done:
					confirmed = true
				default:
					why = fmt.Sprintf("native run did not reproduce (%s %s): failed=%v panic=%q done=%v", v.Kind, v.Label, nr.Failed, nr.Panic, nr.Done)
				}
			}
			if confirmed {
				violations++
				r.Confirmed = append(r.Confirmed, path)
				fmt.Printf("  %s: %s %s\n    %s\n", v.Kind, v.Label, v.Msg, strings.ReplaceAll(strings.TrimSpace(v.Detail), "\n", "\n    "))
				fmt.Printf("VIOLATION property=%s replay=%s\n", prop, path)
			} else {
				r.Unconfirmed = append(r.Unconfirmed, path+": "+why)
				inconclusive = append(inconclusive, fmt.Sprintf("%s: counterexample %s (%s %s) was not confirmed natively: %s", h.Fn, path, v.Kind, v.Label, why))
			}
		}
		// translator validation: replay sampled passing paths natively
		// (VX_REPLAYS, development: overrides the registered number of replays;
		// with VX_SAMPLE_ALL=1 the sample is spread over every path)
		if v, err := strconv.Atoi(os.Getenv("VX_REPLAYS")); err == nil && v > 0 && opts.Replays > 0 {
			opts.Replays = v
		}
		if needNative && !h.NoNative && opts.Replays > 0 && len(st.Violations) == 0 {
			if b, err := getBin(); err != nil {
				inconclusive = append(inconclusive, h.Fn+": "+err.Error())
			} else {
				samples := pickSamples(st.Samples, opts.Replays, seed)
				for n, s := range samples {
					rf := s.ToReplay(prop, h.Fn, effTier(opts, tier))
					path := filepath.Join(tmpDir(&tmp), fmt.Sprintf("sample-%s-%d.json", h.Fn, n))
					rf.Write(path)
					nr, out, err := runNativeRobust(b, path, func(nr *nativeResult) bool {
						return len(nr.Failed) == 0 && nr.Panic == "" && nr.Done && sameObs(s.Obs, nr.Obs) == ""
					})
					if err != nil {
						r.ReplayMismatch = append(r.ReplayMismatch, err.Error()+" "+out)
						continue
					}
					if len(nr.Failed) > 0 || nr.Panic != "" || !nr.Done {
						r.ReplayMismatch = append(r.ReplayMismatch, fmt.Sprintf("native run of a passing path failed: failed=%v panic=%q done=%v", nr.Failed, nr.Panic, nr.Done))
						keep := filepath.Join(replayDir, fmt.Sprintf("%s-%s-mismatch-%d.json", prop, h.Fn, n))
						rf.Write(keep)
						continue
					}
					if d := sameObs(s.Obs, nr.Obs); d != "" {
						r.ReplayMismatch = append(r.ReplayMismatch, d)
						keep := filepath.Join(replayDir, fmt.Sprintf("%s-%s-mismatch-%d.json", prop, h.Fn, n))
						rf.Write(keep)
						continue
					}
					r.Replays++
				}
				for _, m := range r.ReplayMismatch {
					inconclusive = append(inconclusive, h.Fn+": executor/native mismatch: "+m)
				}
			}
		}
	}

	// ---- evidence
	ev := evidence{PropertyID: prop, Tier: *tierS, Seed: seed, Level: "model_checking", WallS: time.Since(t0).Seconds(), Violations: violations}
	cov := map[string]interface{}{}
	var states, trans, queries, asserts, validated, solverDec int64
	var solverS float64
	funcs := map[string]bool{}
	stubs := map[string]bool{}
	var samples []interface{}
	var hs []interface{}
	for _, r := range runs {
		st := r.Stats
		states += st.Paths
		trans += st.Edges
		solverDec += st.Transitions
		queries += st.Queries
		asserts += st.AssertChecks
		solverS += float64(st.SolverNS) / 1e9
		validated += int64(r.Replays + len(r.Confirmed))
		for _, f := range st.Funcs {
			funcs[f] = true
		}
		for _, s := range r.Stubs {
			stubs[s] = true
		}
		for n, s := range st.Samples {
			if n >= 2 {
				break
			}
			samples = append(samples, map[string]interface{}{"harness": r.Spec.Fn, "decisions": decString(s.Dec), "model": modelMap(s), "observations": s.Obs})
		}
		hs = append(hs, map[string]interface{}{
			"harness": r.Spec.Fn, "about": r.Spec.About, "bounds": r.Spec.Bounds, "outside_the_claim": r.Spec.Outside,
			"paths": st.Paths, "paths_discarded_by_assume": st.Discarded, "decisions": st.Transitions, "solver_queries": st.Queries,
			"solver_s": float64(st.SolverNS) / 1e9, "assertion_checks": st.AssertChecks, "assertions_reached": st.AssertsHit,
			"ssa_steps": st.Steps, "max_decision_depth": st.MaxDecisions, "wall_s": r.WallS,
			"race_candidate_pairs": st.RacePairs, "race_queries": st.RaceQueries, "trace_sync_events": st.TraceEvents,
			"cross_solver_rechecks": r.Cross, "cross_solver_unknown": r.CrossUnknown, "cross_solver_disagreements": r.CrossDisagree,
			"native_revalidations_ok": r.Replays, "native_mismatches": r.ReplayMismatch,
			"violations_confirmed": r.Confirmed, "counterexamples_unconfirmed": r.Unconfirmed,
			"natively_replayable": !r.Spec.NoNative,
		})
	}
	if len(samples) == 0 {
		samples = append(samples, "no path completed")
	}
	cov["states"] = states
	cov["transitions"] = trans
	cov["traces_validated_against_impl"] = validated
	cov["samples"] = samples
	cov["harnesses"] = hs
	cov["queries"] = queries
	cov["solver_decided"] = solverDec
	cov["solver_s"] = solverS
	cov["solver"] = "z3 4.8.12 (z3 -in, one process per worker, (reset) per path, push/pop per query, no set-logic)"
	cov["functions_encoded"] = keys(funcs)
	cov["stubs"] = keys(stubs)
	cov["inconclusive"] = inconclusive
	cov["known_findings_hit"] = knownHit
	cov["exhaustive"] = len(inconclusive) == 0
	cov["explanation"] = "states = feasible paths of the real SSA explored to completion; transitions = edges of the explored decision tree (solver-decided branch/size decisions plus harness/scheduler choices); solver_decided = decisions and assertions put to z3; every assertion check is the query PC ∧ ¬assertion decided by z3 for all values of the symbolic inputs within the harness bounds; traces_validated_against_impl = solver models replayed on the native build with identical observations (or reproduced violations)"
	cov["load_s"] = ld.loadS
	ev.Coverage = cov
	ev.Assumptions = append([]string{
		"Go SSA semantics as implemented by the vx executor (fork of x/tools go/ssa/interp v0.29.0 with symbolic scalars)",
		"environment stubs listed under coverage.stubs",
	}, ps.Assumptions...)
	os.MkdirAll(filepath.Join(outDir, "evidence"), 0755)
	b, _ := json.MarshalIndent(ev, "", " ")
	os.WriteFile(filepath.Join(outDir, "evidence", prop+".json"), b, 0644)

	ids := keysInt(knownHit)
	for _, id := range ids {
		fmt.Printf("KNOWN-FINDING: property=%s %s: %s\n", prop, id, knownWhat[id])
	}
	if violations > 0 {
		os.Exit(1)
	}
	if len(inconclusive) > 0 {
		for _, m := range inconclusive {
			fmt.Printf("INCONCLUSIVE: %s\n", m)
		}
		os.Exit(2)
	}
	fmt.Printf("OK property=%s tier=%s states=%d decisions=%d queries=%d validated=%d wall=%.1fs\n", prop, *tierS, states, trans, queries, validated, time.Since(t0).Seconds())
}

func tmpDir(tmp *string) string {
	if *tmp == "" {
		d, _ := os.MkdirTemp("", "vxnative")
		*tmp = d
	}
	return *tmp
}

func contains(s []string, x string) bool {
	for _, y := range s {
		if y == x {
			return true
		}
	}
	return false
}

func pickSamples(all []*interp.PathResult, n int, seed int64) []*interp.PathResult {
	if len(all) <= n {
		return all
	}
	// deterministic spread chosen by seed
	out := []*interp.PathResult{}
	step := len(all) / n
	off := int(seed) % step
	if off < 0 {
		off = 0
	}
	for i := off; i < len(all) && len(out) < n; i += step {
		out = append(out, all[i])
	}
	return out
}

func decString(d []interp.Decision) string {
	var sb strings.Builder
	for _, x := range d {
		switch x.K {
		case 'b':
			if x.V != 0 {
				sb.WriteByte('T')
			} else {
				sb.WriteByte('F')
			}
		default:
			fmt.Fprintf(&sb, "%c%d", x.K, x.V)
		}
	}
	if sb.Len() > 200 {
		return sb.String()[:200] + "..."
	}
	return sb.String()
}

func modelMap(s *interp.PathResult) map[string]uint64 {
	m := map[string]uint64{}
	for i, n := range s.SymNames {
		if i < 40 {
			m[n] = s.Model[i]
		}
	}
	return m
}

func keys(m map[string]bool) []string {
	r := []string{}
	for k := range m {
		r = append(r, k)
	}
	sort.Strings(r)
	return r
}

func keysInt(m map[string]int) []string {
	r := []string{}
	for k := range m {
		r = append(r, k)
	}
	sort.Strings(r)
	return r
}

// ---------------------------------------------------------------- run (dev)

func cmdRun(args []string) {
	fs := flag.NewFlagSet("run", flag.ExitOnError)
	tier := fs.Int("tier", 0, "0 quick 1 thorough")
	preempt := fs.Int("preempt", 0, "")
	permute := fs.Bool("permute", false, "")
	selFork := fs.Bool("select-fork", false, "")
	traceF := fs.Bool("trace", false, "record event traces and run the SMT race analysis")
	maxPaths := fs.Int("max-paths", 0, "")
	w := fs.Int("workers", 16, "")
	knownS := fs.String("known", "", "comma separated known-finding ids")
	verbose := fs.Bool("v", false, "")
	if len(args) < 1 {
		fatal(2, "usage: vx run <harnessFn>")
	}
	fn := args[0]
	fs.Parse(args[1:])
	ld := loadProgram()
	fmt.Printf("loaded in %.1fs\n", ld.loadS)
	known := map[string]bool{}
	for _, k := range strings.Split(*knownS, ",") {
		if k != "" {
			known[k] = true
		}
	}
	cfg := &interp.Config{Prog: ld.prog, Target: ld.target, Sizes: types.SizesFor("gc", "amd64"), Z3: envOr("VX_Z3", "/usr/bin/z3"),
		Workers: *w, MaxPaths: *maxPaths, Preempt: *preempt, PermuteMaps: *permute, SelectFork: *selFork, Trace: *traceF, Known: known, Tier: *tier, StopAtFirstViolation: true, SymbolicChoices: os.Getenv("VX_CONCRETE_CHOICES") == ""}
	cfg.Prepare()
	entry, err := interp.Entry(cfg, fn)
	if err != nil {
		fatal(2, "%v", err)
	}
	t0 := time.Now()
	st := interp.NewExplorer(cfg, entry).Run()
	fmt.Printf("paths=%d discarded=%d decisions=%d queries=%d solver=%.2fs asserts=%d steps=%d wall=%.2fs\n", st.Paths, st.Discarded, st.Transitions, st.Queries,
		float64(st.SolverNS)/1e9, st.AssertChecks, st.Steps, time.Since(t0).Seconds())
	fmt.Printf("asserts: %v known: %v\n", st.AssertsHit, st.KnownHit)
	if *traceF {
		fmt.Printf("race analysis: sync_events=%d candidate_pairs=%d queries=%d\n", st.TraceEvents, st.RacePairs, st.RaceQueries)
	}
	for _, m := range st.Inconclusive {
		fmt.Println("INCONCLUSIVE:", m)
	}
	for n, v := range st.Violations {
		fmt.Printf("%s %s: %s\n%s\n", strings.ToUpper(v.Kind), v.Label, v.Msg, v.Detail)
		fmt.Printf("  decisions=%s\n  model=%v\n  obs=%v\n", decString(v.Dec), modelMap(v), v.Obs)
		p := fmt.Sprintf("/tmp/vxrun-%s-%d.json", fn, n)
		v.ToReplay("dev", fn, *tier).Write(p)
		fmt.Println("  replay file:", p)
	}
	if *verbose {
		fmt.Println("functions:", strings.Join(st.Funcs, "\n  "))
		fmt.Println("stubs:", strings.Join(cfg.Stubs(), "\n  "))
		for _, s := range st.Samples {
			fmt.Printf("sample: %s %v %v\n", decString(s.Dec), modelMap(s), s.Obs)
		}
	}
}

// ---------------------------------------------------------------- replay

func cmdReplay(args []string) {
	if len(args) < 1 {
		fatal(2, "usage: vx replay <file>")
	}
	rf, err := interp.ReadReplay(args[0])
	if err != nil {
		fatal(2, "%v", err)
	}
	// 1. re-execute the recorded decision vector in the executor, against
	//    /repo as it is now
	reg := loadRegistry()
	var spec *HarnessSpec
	var opts TierOpts
	for _, ps := range reg {
		for n := range ps.Harnesses {
			if ps.Harnesses[n].Fn == rf.Harness {
				spec = &ps.Harnesses[n]
			}
		}
	}
	if ps, ok := reg[rf.Property]; ok {
		for n := range ps.Harnesses {
			if ps.Harnesses[n].Fn == rf.Harness {
				spec = &ps.Harnesses[n]
			}
		}
	}
	if spec != nil {
		opts = spec.Quick
		if rf.Tier == 1 {
			opts = spec.Thorough
		}
	}
	ld := loadProgram()
	known := map[string]bool{}
	for _, k := range loadKnown() {
		if k.Status == "open" {
			known[k.ID] = true
		}
	}
	cfg := &interp.Config{Prog: ld.prog, Target: ld.target, Sizes: types.SizesFor("gc", "amd64"), Z3: envOr("VX_Z3", "/usr/bin/z3"),
		Workers: 1, Preempt: opts.Preempt, PermuteMaps: opts.PermuteMaps, SelectFork: opts.SelectFork, Trace: opts.Trace,
		Known: known, Tier: rf.Tier, SymbolicChoices: true}
	cfg.Prepare()
	entry, err := interp.Entry(cfg, rf.Harness)
	if err != nil {
		fatal(2, "%v", err)
	}
	res := interp.NewExplorer(cfg, entry).RunOne(&interp.PathSpec{Dec: rf.Dec, Model: rf.ModelAll})
	fmt.Printf("symbolic re-execution of %s on the current /repo: %s %s %s\n", rf.Harness, res.Kind, res.Label, res.Msg)
	symViol := res.Kind == "violation" || res.Kind == "panic" || res.Kind == "deadlock"
	// 2. native replay where the harness supports it
	natViol := false
	if spec == nil || !spec.NoNative {
		bin, tmp, err := nativeBinary()
		if tmp != "" {
			defer os.RemoveAll(tmp)
		}
		if err != nil {
			fatal(2, "%v", err)
		}
		nr, out, err := runNative(bin, args[0])
		if err != nil {
			fmt.Println(out)
			fatal(2, "%v", err)
		}
		fmt.Printf("native replay of %s (%s %s): failed=%v panic=%q done=%v\n", rf.Harness, rf.Kind, rf.Label, nr.Failed, nr.Panic, nr.Done)
		natViol = len(nr.Failed) > 0 || nr.Panic != "" || !nr.Done
	} else {
		fmt.Printf("harness %s is not natively replayable (schedule / crash-model / race witness)\n", rf.Harness)
		natViol = symViol
	}
	if symViol && natViol {
		fmt.Printf("VIOLATION property=%s replay=%s\n", rf.Property, args[0])
		os.Exit(1)
	}
}

func main() {
	if pf := os.Getenv("VX_PROF"); pf != "" {
		f, _ := os.Create(pf)
		pprof.StartCPUProfile(f)
		defer pprof.StopCPUProfile()
	}
	if len(os.Args) < 2 {
		fatal(2, "usage: vx check|run|replay|selftest ...")
	}
	switch os.Args[1] {
	case "check":
		cmdCheck(os.Args[2:])
	case "run":
		cmdRun(os.Args[2:])
	case "replay":
		cmdReplay(os.Args[2:])
	case "selftest":
		cmdSelftest(os.Args[2:])
	default:
		fatal(2, "unknown command %s", os.Args[1])
	}
}

var _ = smt.Sat
