package main

import "fmt"

func cmdSelftest(args []string) {
	fmt.Println("selftest: see `vx check` translator validation (native re-validation of sampled paths)")
}
