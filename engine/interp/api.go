package interp

// Public surface used by cmd/vx.

import (
	"encoding/json"
	"fmt"
	"os"

	"golang.org/x/tools/go/ssa"
)

// ReplayFile is what is written for a counterexample (and for sampled
// passing paths that are re-validated natively).
type ReplayFile struct {
	Property string     `json:"property"`
	Harness  string     `json:"harness"`
	Tier     int        `json:"tier"`
	Kind     string     `json:"kind"`
	Label    string     `json:"label"`
	Msg      string     `json:"msg"`
	Detail   string     `json:"detail,omitempty"`
	Dec      []Decision `json:"decisions"`
	Model    []uint64   `json:"model"`
	ModelAll []uint64   `json:"model_all"`
	SymNames []string   `json:"sym_names"`
	SymWidth []int      `json:"sym_width"`
	Choices  []uint64   `json:"choices"` // the 'k' decisions made by harness-level vxChoose, in order
	Obs      []ObsRecord `json:"observations,omitempty"`
}

func (r *PathResult) ToReplay(prop, harness string, tier int) *ReplayFile {
	rf := &ReplayFile{Property: prop, Harness: harness, Tier: tier, Kind: r.Kind, Label: r.Label, Msg: r.Msg, Detail: r.Detail,
		Dec: r.Dec, Model: r.Model, ModelAll: r.ModelAll, SymNames: r.SymNames, SymWidth: r.SymWidth, Obs: r.Obs}
	for _, d := range r.Dec {
		if d.K == 'h' {
			rf.Choices = append(rf.Choices, d.V)
		}
	}
	return rf
}

func (rf *ReplayFile) Write(path string) error {
	b, err := json.MarshalIndent(rf, "", " ")
	if err != nil {
		return err
	}
	return os.WriteFile(path, b, 0644)
}

func ReadReplay(path string) (*ReplayFile, error) {
	b, err := os.ReadFile(path)
	if err != nil {
		return nil, err
	}
	rf := &ReplayFile{}
	if err := json.Unmarshal(b, rf); err != nil {
		return nil, err
	}
	return rf, nil
}

// Entry looks up a harness function in the target package.
func Entry(cfg *Config, name string) (*ssa.Function, error) {
	f := cfg.Target.Func(name)
	if f == nil {
		return nil, fmt.Errorf("harness function %s not found in %s", name, cfg.Target.Pkg.Path())
	}
	return f, nil
}
