package interp

// Path exploration: DFS by re-execution over decision vectors, one solver
// process per worker.

import (
	"fmt"
	"os"
	"go/token"
	"go/types"
	"sort"
	"strings"
	"sync"
	"sync/atomic"
	"time"

	"golang.org/x/tools/go/ssa"

	"vx/smt"
)

// Config is shared (read-only during exploration) by all paths of a check.
type Config struct {
	Prog      *ssa.Program
	Target    *ssa.Package // the package under verification (moss)
	Sizes     types.Sizes
	Z3        string
	QueryMS   int
	Workers   int
	MaxSteps  int64
	MaxDecisions  int
	MaxConcretize int
	MaxGoroutines int
	MaxPaths  int
	Tier      int  // 0 quick, 1 thorough (returned by vxTier())
	Preempt   int  // pre-emption budget (mode X); 0 = run-to-block
	PermuteMaps bool
	CrossCheckEvery int // re-decide every n-th assertion query (and the first 8) with z3 5.x and cvc5; 0 = off
	assertQueries, crossChecks, crossUnknown, crossDisagree int64
	Trace bool // record event traces and run the SMT race analysis at the end of every path
	MaxTraceAccesses int
	SymbolicChoices bool // harness/scheduler choices are symbolic variables enumerated by the solver
	SelectFork  bool // fork over the ready cases of a select (otherwise: first ready case in source order)
	Known     map[string]bool // known-finding ids that may be excused
	Deadline  time.Time
	StopAtFirstViolation bool

	redirects map[string]*ssa.Function
	initPkgs  map[string]bool

	mu    sync.Mutex
	funcs map[string]int
	exts  map[string]int
	traceFn map[*ssa.Function]bool
}

func (c *Config) noteExt(name string) {
	if strings.Contains(name, ".vx") && !strings.Contains(name, "->") {
		return
	}
	c.mu.Lock()
	c.exts[name]++
	c.mu.Unlock()
}

// CrossStats returns (re-decided queries, unknown answers, disagreements).
func (c *Config) CrossStats() (int64, int64, int64) {
	return atomic.LoadInt64(&c.crossChecks), atomic.LoadInt64(&c.crossUnknown), atomic.LoadInt64(&c.crossDisagree)
}

// Stubs lists the intrinsics / redirects that were executed.
func (c *Config) Stubs() []string {
	c.mu.Lock()
	defer c.mu.Unlock()
	var r []string
	for k := range c.exts {
		r = append(r, k)
	}
	sort.Strings(r)
	return r
}

func (c *Config) isTarget(p *ssa.Package) bool { return p == c.Target }

func (c *Config) initAllowed(p *ssa.Package) bool {
	return c.initPkgs[p.Pkg.Path()]
}

func (c *Config) noteFunc(fn *ssa.Function) {
	if fn.Pkg != c.Target {
		return
	}
	c.mu.Lock()
	c.funcs[fn.String()]++
	c.mu.Unlock()
}

// Prepare resolves redirects and defaults.
func (c *Config) Prepare() {
	c.funcs = map[string]int{}
	c.exts = map[string]int{}
	c.traceFn = map[*ssa.Function]bool{}
	if c.MaxSteps == 0 {
		c.MaxSteps = 20_000_000
	}
	if c.MaxDecisions == 0 {
		c.MaxDecisions = 4000
	}
	if c.MaxConcretize == 0 {
		c.MaxConcretize = 64
	}
	if c.MaxGoroutines == 0 {
		c.MaxGoroutines = 512
	}
	if c.MaxTraceAccesses == 0 {
		c.MaxTraceAccesses = 2000000
	}
	if c.QueryMS == 0 {
		c.QueryMS = 20000
	}
	if c.Workers == 0 {
		c.Workers = 8
	}
	c.initPkgs = map[string]bool{
		c.Target.Pkg.Path(): true,
		"io": true, "bytes": true, "github.com/couchbase/ghistogram": true,
	}
	c.redirects = map[string]*ssa.Function{}
	for from, to := range redirectNames {
		if f := c.Target.Func(to); f != nil {
			c.redirects[from] = f
		}
	}
}

// redirectNames maps library functions to harness-side models (defined in
// the overlay, package moss). A redirect only exists if the harness
// library defines the target.
var redirectNames = map[string]string{
	"os.Remove":                      "vxOsRemove",
	"os.IsNotExist":                  "vxOsIsNotExist",
	"io/ioutil.ReadDir":              "vxReadDir",
	"os.ReadDir":                     "vxOsReadDir",
	"(*os.File).Stat":                "vxOsFileStat",
	"github.com/blevesearch/mmap-go.MapRegion": "vxMapRegion",
	"(*github.com/blevesearch/mmap-go.MMap).Unmap": "vxUnmap",
}

// ---------------------------------------------------------------- outcomes

type okind int

const (
	oNone okind = iota
	oOK
	oDiscard
	oViolation
	oPanic
	oDeadlock
	oInconclusive
)

func (k okind) String() string {
	return [...]string{"none", "ok", "discard", "violation", "panic", "deadlock", "inconclusive"}[k]
}

type outcome struct {
	kind   okind
	label  string
	msg    string
	detail string
	gor    string
}

type observation struct {
	Label string
	Vals  []*smt.Term // evaluated under the path's model at the end
	Conc  []uint64
}

type pathState struct {
	spec        *PathSpec
	pos         int
	trace       []Decision
	alts        []*PathSpec
	pc          []*smt.Term
	out         outcome
	transitions int
	edges       int
	asserts     int
	assertsHit  map[string]int
	known       map[string]bool
	notes       []string
	obs         []observation
	preempts    int
	reached     map[string]bool
	racePairs   int
	raceQueries int
	facts       map[*smt.Term]bool
	factHits    int
}

type unsupportedPanic struct{ msg string }

// endPath terminates the current path with the given outcome.
func (i *interpreter) endPath(o outcome) {
	if i.ps.out.kind == oNone {
		i.ps.out = o
	}
	panic(pathEndPanic{})
}

// inconclusive ends the path: the verdict for it cannot be trusted.
func (i *interpreter) inconclusive(msg string) {
	i.endPath(outcome{kind: oInconclusive, msg: msg})
}

func (i *interpreter) unsupported(msg string) {
	st := ""
	i.endPath(outcome{kind: oInconclusive, msg: "unsupported: " + msg, detail: st})
}

// noteInconclusive records a problem that does not stop this path.
func (i *interpreter) noteInconclusive(msg string) {
	i.ps.notes = append(i.ps.notes, msg)
}

// ---------------------------------------------------------------- results

// PathResult is what the explorer keeps from one finished path.
type PathResult struct {
	Kind     string
	Label    string
	Msg      string
	Detail   string
	Gor      string
	Dec      []Decision
	Model    []uint64
	ModelAll []uint64 // including the choice variables (for symbolic re-execution)
	SymNames []string
	SymWidth []int
	Obs      []ObsRecord
	Known    []string
	Notes    []string
	Asserts  map[string]int
	Steps    int64
	RacePairs   int
	RaceQueries int
	TraceEvents int
}

type ObsRecord struct {
	Label string
	Vals  []uint64
}

// Stats aggregates a whole exploration.
type Stats struct {
	Paths        int64 // completed (ok) paths = states
	Discarded    int64
	Transitions  int64 // solver-decided decisions
	Edges        int64 // edges of the explored decision tree (solver decisions + harness/scheduler choices)
	Queries      int64
	SolverNS     int64
	AssertChecks int64
	Violations   []*PathResult
	Inconclusive []string
	KnownHit     map[string]int
	AssertsHit   map[string]int
	Samples      []*PathResult
	Funcs        []string
	Truncated    bool
	Steps        int64
	MaxDecisions int
	RacePairs    int64
	RaceQueries  int64
	TraceEvents  int64
}

type Explorer struct {
	cfg   *Config
	entry *ssa.Function

	mu      sync.Mutex
	cond    *sync.Cond
	stack   []*PathSpec
	busy    int
	stop    bool
	stats   Stats
	nstart  int64
	sampleEvery int
}

func NewExplorer(cfg *Config, entry *ssa.Function) *Explorer {
	e := &Explorer{cfg: cfg, entry: entry}
	e.cond = sync.NewCond(&e.mu)
	e.stats.KnownHit = map[string]int{}
	e.stats.AssertsHit = map[string]int{}
	return e
}

// Run explores all paths of the entry function.
func (e *Explorer) Run() *Stats {
	e.stack = []*PathSpec{{}}
	var wg sync.WaitGroup
	quit := make(chan struct{})
	if os.Getenv("VX_PROGRESS") != "" {
		go func() {
			t0 := time.Now()
			for {
				select {
				case <-quit:
					return
				case <-time.After(5 * time.Second):
					e.mu.Lock()
					fmt.Fprintf(os.Stderr, "[%4.0fs] paths=%d discarded=%d pending=%d busy=%d queries=%d\n", time.Since(t0).Seconds(), e.stats.Paths, e.stats.Discarded, len(e.stack), e.busy, atomic.LoadInt64(&e.stats.Queries))
					e.mu.Unlock()
				}
			}
		}()
	}
	defer close(quit)
	for w := 0; w < e.cfg.Workers; w++ {
		wg.Add(1)
		go func(w int) {
			defer wg.Done()
			e.worker(w)
		}(w)
	}
	wg.Wait()
	e.cfg.mu.Lock()
	for f := range e.cfg.funcs {
		e.stats.Funcs = append(e.stats.Funcs, f)
	}
	e.cfg.mu.Unlock()
	sort.Strings(e.stats.Funcs)
	return &e.stats
}

// RunOne executes exactly one path (used by replay and selftest).
func (e *Explorer) RunOne(spec *PathSpec) *PathResult {
	sol, err := smt.NewSolver(e.cfg.Z3, []string{"-in"}, e.cfg.QueryMS)
	if err != nil {
		panic(err)
	}
	defer sol.Close()
	r, _ := e.runPath(sol, spec)
	return r
}

func (e *Explorer) worker(w int) {
	sol, err := smt.NewSolver(e.cfg.Z3, []string{"-in"}, e.cfg.QueryMS)
	if err != nil {
		e.mu.Lock()
		e.stats.Inconclusive = append(e.stats.Inconclusive, "cannot start solver: "+err.Error())
		e.stop = true
		e.cond.Broadcast()
		e.mu.Unlock()
		return
	}
	defer sol.Close()
	for {
		e.mu.Lock()
		for len(e.stack) == 0 && e.busy > 0 && !e.stop {
			e.cond.Wait()
		}
		if e.stop || len(e.stack) == 0 {
			e.cond.Broadcast()
			e.mu.Unlock()
			return
		}
		spec := e.stack[len(e.stack)-1]
		e.stack = e.stack[:len(e.stack)-1]
		e.busy++
		e.mu.Unlock()

		q0, ns0 := sol.Queries, sol.SolverNS
		res, alts := e.runPath(sol, spec)
		atomic.AddInt64(&e.stats.Queries, int64(sol.Queries-q0))
		atomic.AddInt64(&e.stats.SolverNS, sol.SolverNS-ns0)

		e.mu.Lock()
		e.busy--
		e.record(res)
		// push alternatives (deepest last so DFS continues near this path)
		e.stack = append(e.stack, alts...)
		n := atomic.AddInt64(&e.nstart, 1)
		if e.cfg.MaxPaths > 0 && n >= int64(e.cfg.MaxPaths) && (len(e.stack) > 0 || e.busy > 0) {
			e.stats.Truncated = true
			e.stats.Inconclusive = append(e.stats.Inconclusive, fmt.Sprintf("path budget %d exhausted with work left", e.cfg.MaxPaths))
			e.stop = true
		}
		if !e.cfg.Deadline.IsZero() && time.Now().After(e.cfg.Deadline) && (len(e.stack) > 0 || e.busy > 0) {
			e.stats.Truncated = true
			e.stats.Inconclusive = append(e.stats.Inconclusive, "time budget exhausted with work left")
			e.stop = true
		}
		e.cond.Broadcast()
		e.mu.Unlock()
	}
}

func (e *Explorer) record(r *PathResult) {
	st := &e.stats
	st.Steps += r.Steps
	st.RacePairs += int64(r.RacePairs)
	st.RaceQueries += int64(r.RaceQueries)
	st.TraceEvents += int64(r.TraceEvents)
	if len(r.Dec) > st.MaxDecisions {
		st.MaxDecisions = len(r.Dec)
	}
	for _, k := range r.Known {
		st.KnownHit[k]++
	}
	for l, n := range r.Asserts {
		st.AssertsHit[l] += n
		st.AssertChecks += int64(n)
	}
	for _, n := range r.Notes {
		if len(st.Inconclusive) < 50 {
			st.Inconclusive = append(st.Inconclusive, n)
		}
	}
	switch r.Kind {
	case "ok":
		st.Paths++
		// VX_SAMPLE_ALL=1 (development: full native re-validation of one
		// harness, together with a large "replays" value) keeps every path
		if len(st.Samples) < 16 || (st.Paths%97 == 0 && len(st.Samples) < 64) || os.Getenv("VX_SAMPLE_ALL") == "1" {
			st.Samples = append(st.Samples, r)
		}
	case "discard":
		st.Discarded++
	case "violation", "panic", "deadlock":
		st.Violations = append(st.Violations, r)
		if e.cfg.StopAtFirstViolation {
			e.stop = true
		}
	case "inconclusive":
		if len(st.Inconclusive) < 50 {
			st.Inconclusive = append(st.Inconclusive, r.Msg+" "+r.Detail)
		} else {
			st.Truncated = true
		}
	}
}

// runPath executes one path to completion.
func (e *Explorer) runPath(sol *smt.Solver, spec *PathSpec) (*PathResult, []*PathSpec) {
	cfg := e.cfg
	i := &interpreter{
		prog:     cfg.Prog,
		cfg:      cfg,
		globals:  make(map[*ssa.Global]*value),
		sizes:    cfg.Sizes,
		ctx:      smt.NewCtx(),
		sol:      sol,
		model:    spec.Model,
		yielded:  make(chan struct{}),
		syncTab:  map[*value]*syncState{},
		condTab:  map[*value]*condState{},
		derived:  map[*value][][]value{},
		initDone: map[*ssa.Package]bool{},
	}
	if cfg.Trace {
		i.tr = newTrace()
	}
	i.ps = &pathState{spec: spec, assertsHit: map[string]int{}, known: map[string]bool{}, reached: map[string]bool{}}
	if rt := cfg.Prog.ImportedPackage("runtime"); rt != nil {
		i.runtimeErrorString = rt.Type("errorString").Object().Type()
	}
	sol.Reset()

	// g0: package init of the target, then the harness entry.
	initFn := cfg.Target.Func("init")
	root :=&goroutine{id: 0, name: e.entry.String(), resume: make(chan bool)}
	i.gs = append(i.gs, root)
	i.wg.Add(1)
	go func() {
		defer i.wg.Done()
		if !<-root.resume {
			return
		}
		root.started = true
		defer func() {
			r := recover()
			root.done = true
			switch r.(type) {
			case nil:
				if i.ps.out.kind == oNone {
					i.ps.out = outcome{kind: oOK}
				}
			case killedPanic:
				return
			case pathEndPanic:
			default:
				if i.ps.out.kind == oNone {
					i.ps.out = outcome{kind: oPanic, msg: panicString(r), detail: root.panicTrace, gor: root.name}
				}
			}
			i.yielded <- struct{}{}
		}()
		fr := &frame{i: i, g: root, fn: e.entry}
		i.traceSync(fr, evStart, nil, 0, 0)
		if initFn != nil {
			call(i, fr, token.NoPos, initFn, nil)
		}
		call(i, fr, token.NoPos, e.entry, nil)
	}()
	i.schedLoop()

	ps := i.ps
	if cfg.Trace && ps.out.kind == oOK {
		rep, pairs, q := i.analyseRaces()
		ps.racePairs, ps.raceQueries = pairs, q
		ps.transitions += q
		if rep != nil {
			ps.out = outcome{kind: oViolation, label: "no-data-race", msg: "predicted data race: " + rep.String(cfg.Prog.Fset)}
		}
	}
	if len(sol.Errors) > 0 {
		ps.notes = append(ps.notes, "solver error: "+strings.Join(sol.Errors, "; "))
		sol.Errors = nil
	}
	if ps.out.kind == oPanic && strings.HasPrefix(ps.out.msg, "unsupported: ") {
		ps.out.kind = oInconclusive
	}
	res := &PathResult{
		Kind:    ps.out.kind.String(),
		Label:   ps.out.label,
		Msg:     ps.out.msg,
		Detail:  ps.out.detail,
		Gor:     ps.out.gor,
		Dec:     ps.trace,
		Notes:   ps.notes,
		Asserts: ps.assertsHit,
		Steps:   i.steps,
		RacePairs: ps.racePairs, RaceQueries: ps.raceQueries,
	}
	if i.tr != nil {
		res.TraceEvents = len(i.tr.events)
	}
	for k := range ps.known {
		res.Known = append(res.Known, k)
	}
	// final model: the current model satisfies the PC; pad to all symbols
	m := make([]uint64, len(i.ctx.Syms))
	ev := smt.NewEvaluator(i.model)
	res.ModelAll = append([]uint64(nil), m...)
	m = m[:0]
	for n, s := range i.ctx.Syms {
		if strings.HasPrefix(i.ctx.Names[n], "choice#") {
			continue // choice variables are replayed through the decision vector
		}
		m = append(m, ev.Eval(s))
		res.SymNames = append(res.SymNames, i.ctx.Names[n])
		res.SymWidth = append(res.SymWidth, s.W)
	}
	res.Model = m
	for _, o := range ps.obs {
		rec := ObsRecord{Label: o.Label}
		for _, t := range o.Vals {
			rec.Vals = append(rec.Vals, ev.Eval(t))
		}
		res.Obs = append(res.Obs, rec)
	}
	atomic.AddInt64(&e.stats.Transitions, int64(ps.transitions))
	atomic.AddInt64(&e.stats.Edges, int64(ps.edges))
	return res, ps.alts
}
