package interp

// Intrinsics: the harness API (vx*), models of sync / atomic / time, and
// pass-throughs for library functions that cannot be interpreted. Each of
// these is part of the trusted base of every check that executes it; the
// set actually used by a run is reported in its evidence file.

import (
	"fmt"
	"go/token"
	"go/types"
	"math"
	"path"
	"sort"
	"strconv"
	"strings"
	"sync/atomic"
	"time"

	"golang.org/x/tools/go/ssa"

	"vx/smt"
)

type externalFn func(fr *frame, args []value) value

// Key strings are from Function.String().
var externals = make(map[string]externalFn)

// TargetPath is the import path of the package under verification.
const TargetPath = "github.com/couchbase/moss"

func init() {
	for k, v := range map[string]externalFn{
		// --- harness API
		TargetPath + ".vxU8":         func(fr *frame, a []value) value { return fr.i.fresh(types.Uint8, "u8") },
		TargetPath + ".vxU16":        func(fr *frame, a []value) value { return fr.i.fresh(types.Uint16, "u16") },
		TargetPath + ".vxU32":        func(fr *frame, a []value) value { return fr.i.fresh(types.Uint32, "u32") },
		TargetPath + ".vxU64":        func(fr *frame, a []value) value { return fr.i.fresh(types.Uint64, "u64") },
		TargetPath + ".vxInt":        func(fr *frame, a []value) value { return fr.i.fresh(types.Int, "int") },
		TargetPath + ".vxI64":        func(fr *frame, a []value) value { return fr.i.fresh(types.Int64, "i64") },
		TargetPath + ".vxBool":       func(fr *frame, a []value) value { return fr.i.fresh(types.Bool, "bool") },
		TargetPath + ".vxBytes":      extVxBytes,
		TargetPath + ".vxAssume":     extVxAssume,
		TargetPath + ".vxAssert":     extVxAssert,
		TargetPath + ".vxAssertK":    extVxAssertK,
		TargetPath + ".vxChoose":     func(fr *frame, a []value) value { return fr.i.chooseK('h', int(fr.i.concInt(fr, a[0]))) },
		TargetPath + ".vxAnd":        func(fr *frame, a []value) value { return andv(fr, a[0], a[1]) },
		TargetPath + ".vxOr":         func(fr *frame, a []value) value { return notv(fr, andv(fr, notv(fr, a[0]), notv(fr, a[1]))) },
		TargetPath + ".vxNot":        func(fr *frame, a []value) value { return notv(fr, a[0]) },
		TargetPath + ".vxImplies":    func(fr *frame, a []value) value { return notv(fr, andv(fr, a[0], notv(fr, a[1]))) },
		TargetPath + ".vxIteU8":      extVxIte,
		TargetPath + ".vxIteU64":     extVxIte,
		TargetPath + ".vxIteInt":     extVxIte,
		TargetPath + ".vxIteBool":    extVxIte,
		TargetPath + ".vxBytesEq":    func(fr *frame, a []value) value { return bytesEq(fr, a[0].([]value), a[1].([]value)) },
		TargetPath + ".vxBytesCmp":   func(fr *frame, a []value) value { return bytesCmp(fr, a[0].([]value), a[1].([]value)) },
		TargetPath + ".vxObserveInt": extVxObserveInt,
		TargetPath + ".vxObserveBool": extVxObserveInt,
		TargetPath + ".vxObserveU64": extVxObserveInt,
		TargetPath + ".vxObserveBytes": extVxObserveBytes,
		TargetPath + ".vxQuiesce":    func(fr *frame, a []value) value { fr.i.yieldIdle(fr.g, "quiesce"); return nil },
		TargetPath + ".vxYield":      func(fr *frame, a []value) value { fr.i.yieldToOther(fr.g); return nil },
		TargetPath + ".vxReach":      func(fr *frame, a []value) value { fr.i.ps.reached[a[0].(string)] = true; return nil },
		TargetPath + ".vxSymbolic":   func(fr *frame, a []value) value { return true },
		TargetPath + ".vxTier":       func(fr *frame, a []value) value { return fr.i.cfg.Tier },
		TargetPath + ".vxKnown":      func(fr *frame, a []value) value { return fr.i.cfg.Known[a[0].(string)] },
		TargetPath + ".vxConcInt":    func(fr *frame, a []value) value { return int(fr.i.concInt(fr, a[0])) },
		TargetPath + ".vxPoison":     extVxPoison,
		TargetPath + ".vxLog":        func(fr *frame, a []value) value { return nil },
		TargetPath + ".vxIsSym":      func(fr *frame, a []value) value { return isSym(a[0]) },

		// --- moss functions that use unsafe / reflect
		TargetPath + ".Uint64SliceToByteSlice":             extU64ToBytes,
		TargetPath + ".ByteSliceToUint64Slice":             extBytesToU64,
		TargetPath + ".endian":                             func(fr *frame, a []value) value { return "little" },
		"(*" + TargetPath + ".CollectionStats).AtomicCopyTo": extAtomicCopyTo,

		// --- bytes
		"bytes.Equal":     func(fr *frame, a []value) value { return bytesEq(fr, a[0].([]value), a[1].([]value)) },
		"bytes.Compare":   func(fr *frame, a []value) value { return bytesCmp(fr, a[0].([]value), a[1].([]value)) },
		"bytes.IndexByte": extBytesIndexByte,

		// --- sync
		"(*sync.Mutex).Lock":      func(fr *frame, a []value) value { fr.i.mutexLock(fr, a[0].(*value)); return nil },
		"(*sync.Mutex).Unlock":    func(fr *frame, a []value) value { fr.i.mutexUnlock(fr, a[0].(*value)); return nil },
		"(*sync.RWMutex).Lock":    func(fr *frame, a []value) value { fr.i.mutexLock(fr, a[0].(*value)); return nil },
		"(*sync.RWMutex).Unlock":  func(fr *frame, a []value) value { fr.i.mutexUnlock(fr, a[0].(*value)); return nil },
		"(*sync.RWMutex).RLock":   func(fr *frame, a []value) value { fr.i.rLock(fr, a[0].(*value)); return nil },
		"(*sync.RWMutex).RUnlock": func(fr *frame, a []value) value { fr.i.rUnlock(fr, a[0].(*value)); return nil },
		"(*sync.Cond).Wait":       extCondWait,
		"(*sync.Cond).Signal":     extCondSignal,
		"(*sync.Cond).Broadcast":  extCondBroadcast,
		"(*sync.WaitGroup).Add":   extWgAdd,
		"(*sync.WaitGroup).Done":  func(fr *frame, a []value) value { return extWgAdd(fr, []value{a[0], int(-1)}) },
		"(*sync.WaitGroup).Wait":  extWgWait,
		"(*sync.Once).Do":         extOnceDo,

		// --- sync/atomic (sequentially consistent by construction)
		"sync/atomic.AddUint64":   extAtomicAdd,
		"sync/atomic.AddInt64":    extAtomicAdd,
		"sync/atomic.AddUint32":   extAtomicAdd,
		"sync/atomic.AddInt32":    extAtomicAdd,
		"sync/atomic.LoadUint64":  extAtomicLoad,
		"sync/atomic.LoadInt64":   extAtomicLoad,
		"sync/atomic.LoadUint32":  extAtomicLoad,
		"sync/atomic.LoadInt32":   extAtomicLoad,
		"sync/atomic.LoadPointer": extAtomicLoad,
		"sync/atomic.StoreUint64": extAtomicStore,
		"sync/atomic.StoreInt64":  extAtomicStore,
		"sync/atomic.StoreUint32": extAtomicStore,
		"sync/atomic.StoreInt32":  extAtomicStore,
		"sync/atomic.CompareAndSwapInt32":  extAtomicCAS,
		"sync/atomic.CompareAndSwapUint32": extAtomicCAS,
		"sync/atomic.CompareAndSwapInt64":  extAtomicCAS,
		"sync/atomic.CompareAndSwapUint64": extAtomicCAS,

		// --- time: wall-clock time is not the subject of any property
		"time.Now":                func(fr *frame, a []value) value { return zero(fr.fn.Signature.Results().At(0).Type()) },
		"time.Since":              func(fr *frame, a []value) value { return int64(0) },
		"(time.Time).Sub":         func(fr *frame, a []value) value { return int64(0) },
		"(time.Time).Format":      func(fr *frame, a []value) value { return "2016-01-01T00:00:00Z" },
		"time.Sleep":              func(fr *frame, a []value) value { fr.i.yieldIdle(fr.g, "sleep"); return nil },

		// --- formatting and string helpers on concrete data
		"fmt.Sprintf":       extSprintf,
		"fmt.Errorf":        extErrorf,
		"fmt.Sprint":        func(fr *frame, a []value) value { return "<sprint>" },
		"fmt.Println":       func(fr *frame, a []value) value { return tuple{0, iface{}} },
		"fmt.Printf":        func(fr *frame, a []value) value { return tuple{0, iface{}} },
		"strings.Split":     func(fr *frame, a []value) value { return strSlice(strings.Split(a[0].(string), a[1].(string))) },
		"strings.Repeat":    func(fr *frame, a []value) value { return strings.Repeat(a[0].(string), int(asInt64(a[1]))) },
		"strings.HasPrefix": func(fr *frame, a []value) value { return strings.HasPrefix(a[0].(string), a[1].(string)) },
		"strings.HasSuffix": func(fr *frame, a []value) value { return strings.HasSuffix(a[0].(string), a[1].(string)) },
		"strings.Contains":  func(fr *frame, a []value) value { return strings.Contains(a[0].(string), a[1].(string)) },
		"strings.Index":     func(fr *frame, a []value) value { return strings.Index(a[0].(string), a[1].(string)) },
		"strings.TrimRight": func(fr *frame, a []value) value { return strings.TrimRight(a[0].(string), a[1].(string)) },
		"strconv.Itoa":      func(fr *frame, a []value) value { return strconv.Itoa(int(asInt64(a[0]))) },
		"strconv.ParseInt":  extParseInt,
		"path.Join":         extPathJoin,
		"path/filepath.Join": extPathJoin,
		"sort.Strings":      extSortStrings,

		"math.Ceil":    func(fr *frame, a []value) value { return math.Ceil(a[0].(float64)) },
		"math.Floor":   func(fr *frame, a []value) value { return math.Floor(a[0].(float64)) },
		"math.Trunc":   func(fr *frame, a []value) value { return math.Trunc(a[0].(float64)) },
		"math.Pow":     func(fr *frame, a []value) value { return math.Pow(a[0].(float64), a[1].(float64)) },
		"math.Log":     func(fr *frame, a []value) value { return math.Log(a[0].(float64)) },
		"math.Log2":    func(fr *frame, a []value) value { return math.Log2(a[0].(float64)) },
		"math.Exp":     func(fr *frame, a []value) value { return math.Exp(a[0].(float64)) },
		"math.Sqrt":    func(fr *frame, a []value) value { return math.Sqrt(a[0].(float64)) },
		"math.Abs":     func(fr *frame, a []value) value { return math.Abs(a[0].(float64)) },
		"math.Max":     func(fr *frame, a []value) value { return math.Max(a[0].(float64), a[1].(float64)) },
		"math.Min":     func(fr *frame, a []value) value { return math.Min(a[0].(float64), a[1].(float64)) },
		"math.IsNaN":   func(fr *frame, a []value) value { return math.IsNaN(a[0].(float64)) },
		"math.IsInf":   func(fr *frame, a []value) value { return math.IsInf(a[0].(float64), int(asInt64(a[1]))) },
		"math.Inf":     func(fr *frame, a []value) value { return math.Inf(int(asInt64(a[0]))) },
		"math.NaN":     func(fr *frame, a []value) value { return math.NaN() },
		"math.Float64bits":     func(fr *frame, a []value) value { return math.Float64bits(a[0].(float64)) },
		"math.Float64frombits": func(fr *frame, a []value) value { return math.Float64frombits(a[0].(uint64)) },

		"os.Getenv":       func(fr *frame, a []value) value { return "" },
		"runtime.Gosched": func(fr *frame, a []value) value { fr.i.park(fr.g, "gosched", func() bool { return true }); return nil },
		"runtime.GC":      func(fr *frame, a []value) value { return nil },
	} {
		externals[k] = v
	}
}

// ---------------------------------------------------------------- vx API

func (i *interpreter) fresh(k types.BasicKind, name string) value {
	t := i.ctx.NewSym(kindWidth(k), fmt.Sprintf("%s#%d", name, len(i.ctx.Syms)))
	return sv{t, k}
}

func extVxBytes(fr *frame, a []value) value {
	n := fr.i.concInt(fr, a[0])
	if n < 0 || n > 1<<16 {
		fr.i.unsupported("vxBytes length out of range")
	}
	s := make([]value, n)
	for k := range s {
		s[k] = fr.i.fresh(types.Uint8, "b")
	}
	return s
}

func boolTerm(fr *frame, v value) *smt.Term {
	switch b := v.(type) {
	case bool:
		return fr.i.ctx.Bool(b)
	case sv:
		return b.t
	}
	panic(fmt.Sprintf("boolTerm: %T", v))
}

func extVxAssume(fr *frame, a []value) value {
	fr.i.assume(fr, boolTerm(fr, a[0]))
	return nil
}

func extVxAssert(fr *frame, a []value) value {
	fr.i.doAssert(fr, a[0].(string), boolTerm(fr, a[1]), "", nil)
	return nil
}

func extVxAssertK(fr *frame, a []value) value {
	fr.i.doAssert(fr, a[0].(string), boolTerm(fr, a[1]), a[2].(string), boolTerm(fr, a[3]))
	return nil
}

// doAssert is the property check: sat(PC ∧ ¬cond)? Violations that fall
// entirely inside a *listed* known finding's excuse predicate are reported
// as KNOWN-FINDING and the path continues under (cond ∨ excuse).
func (i *interpreter) doAssert(fr *frame, label string, cond *smt.Term, kid string, excuse *smt.Term) {
	ps := i.ps
	ps.assertsHit[label]++
	ps.asserts++
	c := i.ctx
	if cond.IsTrue() {
		return
	}
	neg := c.Not(cond)
	viol := false
	var vm smt.Model
	if i.evalModel(cond) == 0 {
		viol, vm = true, i.model
	} else {
		res, m := i.sol.Check(c, neg)
		ps.transitions++
		switch res {
		case smt.Sat:
			viol, vm = true, m
		case smt.Unknown:
			i.noteInconclusive("solver returned unknown on assertion " + label)
		}
	}
	i.crossCheck(neg, viol, label)
	if !viol {
		i.assertPC(cond)
		return
	}
	if kid != "" && i.cfg.Known[kid] && excuse != nil {
		// is there a violation outside the excuse?
		res, m := i.sol.Check(c, neg, c.Not(excuse))
		ps.transitions++
		switch res {
		case smt.Unsat:
			// every violation here lies inside the listed finding
			ps.known[kid] = true
			// keep exploring the part of the path where the property holds
			r2, m2 := i.sol.Check(c, cond)
			ps.transitions++
			if r2 == smt.Sat {
				i.model = m2
				i.assertPC(cond)
				return
			}
			if r2 == smt.Unknown {
				i.noteInconclusive("solver returned unknown after excuse of " + label)
			}
			i.endPath(outcome{kind: oOK})
		case smt.Unknown:
			i.noteInconclusive("solver returned unknown on excuse of " + label)
			i.endPath(outcome{kind: oOK})
		case smt.Sat:
			vm = m
		}
	}
	i.model = vm
	i.endPath(outcome{kind: oViolation, label: label, msg: "assertion " + label + " can fail"})
}

func extVxIte(fr *frame, a []value) value {
	cnd := a[0]
	if b, ok := cnd.(bool); ok {
		if b {
			return a[1]
		}
		return a[2]
	}
	k, _ := kindOf(a[1])
	if k2, _ := kindOf(a[2]); isSym(a[1]) == false && isSym(a[2]) {
		k = k2
	}
	c := fr.i.ctx
	return fromTerm(c.Ite(cnd.(sv).t, fr.i.toTerm(a[1]), fr.i.toTerm(a[2])), k)
}

func extVxObserveInt(fr *frame, a []value) value {
	fr.i.ps.obs = append(fr.i.ps.obs, observation{Label: a[0].(string), Vals: []*smt.Term{fr.i.toTerm(a[1])}})
	return nil
}

func extVxObserveBytes(fr *frame, a []value) value {
	b := a[1].([]value)
	o := observation{Label: a[0].(string)}
	if b == nil {
		o.Vals = append(o.Vals, fr.i.ctx.Const(64, ^uint64(0)))
	} else {
		o.Vals = append(o.Vals, fr.i.ctx.Const(64, uint64(len(b))))
	}
	for _, x := range b {
		o.Vals = append(o.Vals, fr.i.toTerm(x))
	}
	fr.i.ps.obs = append(fr.i.ps.obs, o)
	return nil
}

// poison marks memory as released (unmapped): any later use faults.
type poison struct{}

func extVxPoison(fr *frame, a []value) value {
	b := a[0].([]value)
	b = b[:cap(b)]
	for k := range b {
		if d, ok := fr.i.derived[&b[k]]; ok {
			for _, s := range d {
				for j := range s {
					s[j] = poison{}
				}
			}
		}
		b[k] = poison{}
	}
	return nil
}

// ---------------------------------------------------------------- bytes

func byteTerm(fr *frame, v value) *smt.Term {
	switch b := v.(type) {
	case uint8:
		return fr.i.ctx.Const(8, uint64(b))
	case sv:
		return b.t
	case poison:
		panic(runtimeError("read of unmapped memory"))
	}
	panic(fmt.Sprintf("byteTerm: %T", v))
}

func bytesEq(fr *frame, a, b []value) value {
	if len(a) != len(b) {
		return false
	}
	c := fr.i.ctx
	acc := c.T
	for k := range a {
		acc = c.And(acc, c.Eq(byteTerm(fr, a[k]), byteTerm(fr, b[k])))
		if acc.IsFalse() {
			return false
		}
	}
	return fromTerm(acc, types.Bool)
}

func bytesCmp(fr *frame, a, b []value) value {
	c := fr.i.ctx
	n := len(a)
	if len(b) < n {
		n = len(b)
	}
	var res *smt.Term
	switch {
	case len(a) < len(b):
		res = c.Const(64, ^uint64(0))
	case len(a) > len(b):
		res = c.Const(64, 1)
	default:
		res = c.Const(64, 0)
	}
	for k := n - 1; k >= 0; k-- {
		x, y := byteTerm(fr, a[k]), byteTerm(fr, b[k])
		res = c.Ite(c.Ult(x, y), c.Const(64, ^uint64(0)), c.Ite(c.Ult(y, x), c.Const(64, 1), res))
	}
	return fromTerm(res, types.Int)
}

func extBytesIndexByte(fr *frame, a []value) value {
	s := a[0].([]value)
	ch, ok := a[1].(byte)
	if !ok {
		fr.i.unsupported("bytes.IndexByte with symbolic needle")
	}
	for k, b := range s {
		bb, ok := b.(byte)
		if !ok {
			fr.i.unsupported("bytes.IndexByte over symbolic bytes")
		}
		if bb == ch {
			return k
		}
	}
	return -1
}

// Uint64SliceToByteSlice: little-endian re-encoding into a fresh array
// (the aliasing between the two views is lost; moss only reads them).
func extU64ToBytes(fr *frame, a []value) value {
	in := a[0].([]value)
	c := fr.i.ctx
	out := make([]value, 8*len(in))
	for k, w := range in {
		t := fr.i.toTerm(w)
		for j := 0; j < 8; j++ {
			out[8*k+j] = fromTerm(c.Extract(t, 8*j+7, 8*j), types.Uint8)
		}
	}
	return tuple{out, iface{}}
}

func extBytesToU64(fr *frame, a []value) value {
	in := a[0].([]value)
	c := fr.i.ctx
	n := len(in) / 8
	out := make([]value, n)
	for k := 0; k < n; k++ {
		t := byteTerm(fr, in[8*k+7])
		for j := 6; j >= 0; j-- {
			t = c.Concat(t, byteTerm(fr, in[8*k+j]))
		}
		out[k] = fromTerm(t, types.Uint64)
	}
	if len(in) > 0 {
		fr.i.derived[&in[0]] = append(fr.i.derived[&in[0]], out)
	}
	return tuple{out, iface{}}
}

func extAtomicCopyTo(fr *frame, a []value) value {
	src := (*a[0].(*value)).(structure)
	dst := (*a[1].(*value)).(structure)
	copy(dst, src)
	return nil
}

// ---------------------------------------------------------------- sync

func extCondWait(fr *frame, a []value) value {
	i := fr.i
	p := a[0].(*value)
	cs := i.condOf(p)
	locker := (*p).(structure)[1].(iface) // sync.Cond.L
	g := fr.g
	// Wait atomically adds the caller to the notify list and unlocks:
	// enqueue first, so that a Broadcast running right after the unlock
	// (a pre-emption point) finds this goroutine.
	g.wake = false
	cs.waiters = append(cs.waiters, g)
	callMethod(fr, locker, "Unlock")
	if !g.wake {
		i.park(g, "cond wait in "+fr.callerName(), func() bool { return g.wake })
	}
	g.wake = false
	i.traceSync(fr, evWake, p, 0, g.wakeBy)
	callMethod(fr, locker, "Lock")
	return nil
}

func extCondSignal(fr *frame, a []value) value {
	cs := fr.i.condOf(a[0].(*value))
	idx := fr.i.traceSync(fr, evSignal, a[0].(*value), 0, 0)
	if len(cs.waiters) > 0 {
		cs.waiters[0].wake = true
		cs.waiters[0].wakeBy = idx
		cs.waiters = cs.waiters[1:]
	}
	fr.i.syncPoint(fr, "cond signal")
	return nil
}

func extCondBroadcast(fr *frame, a []value) value {
	cs := fr.i.condOf(a[0].(*value))
	idx := fr.i.traceSync(fr, evSignal, a[0].(*value), 0, 0)
	for _, g := range cs.waiters {
		g.wake = true
		g.wakeBy = idx
	}
	cs.waiters = nil
	fr.i.syncPoint(fr, "cond broadcast")
	return nil
}

func callMethod(fr *frame, recv iface, name string) value {
	if recv.t == nil {
		panic(runtimeError("invalid memory address or nil pointer dereference"))
	}
	fn := fr.i.prog.LookupMethod(recv.t, nil, name)
	if fn == nil {
		panic(fmt.Sprintf("no method %s on %v", name, recv.t))
	}
	return call(fr.i, fr, fr.callpos, fn, []value{recv.v})
}

func extWgAdd(fr *frame, a []value) value {
	s := fr.i.syncOf(a[0].(*value))
	if asInt64(a[1]) < 0 {
		fr.i.traceSync(fr, evWgDone, a[0].(*value), 0, 0)
	}
	s.wgCount += asInt64(a[1])
	if s.wgCount < 0 {
		panic(targetPanic{iface{t: types.Typ[types.String], v: "sync: negative WaitGroup counter"}})
	}
	return nil
}

func extWgWait(fr *frame, a []value) value {
	s := fr.i.syncOf(a[0].(*value))
	if s.wgCount > 0 {
		fr.i.park(fr.g, "waitgroup wait", func() bool { return s.wgCount == 0 })
	}
	fr.i.traceSync(fr, evJoin, a[0].(*value), 0, 0)
	return nil
}

func extOnceDo(fr *frame, a []value) value {
	s := fr.i.syncOf(a[0].(*value))
	if !s.onceDone {
		s.onceDone = true
		call(fr.i, fr, fr.callpos, a[1], nil)
		fr.i.traceSync(fr, evWgDone, a[0].(*value), 0, 0)
	} else {
		fr.i.traceSync(fr, evJoin, a[0].(*value), 0, 0)
	}
	return nil
}

func extAtomicAdd(fr *frame, a []value) value {
	p := a[0].(*value)
	fr.i.syncPoint(fr, "atomic")
	fr.i.traceSync(fr, evAtomic, p, 0, 0)
	nv := binop(fr, tokenADD, nil, *p, a[1])
	*p = nv
	return nv
}

func extAtomicLoad(fr *frame, a []value) value {
	fr.i.syncPoint(fr, "atomic")
	fr.i.traceSync(fr, evAtomic, a[0].(*value), 0, 0)
	return *a[0].(*value)
}

func extAtomicStore(fr *frame, a []value) value {
	fr.i.syncPoint(fr, "atomic")
	fr.i.traceSync(fr, evAtomic, a[0].(*value), 0, 0)
	*a[0].(*value) = a[1]
	return nil
}

func extAtomicCAS(fr *frame, a []value) value {
	fr.i.syncPoint(fr, "atomic")
	fr.i.traceSync(fr, evAtomic, a[0].(*value), 0, 0)
	p := a[0].(*value)
	if equals(nil, *p, a[1]) {
		*p = a[2]
		return true
	}
	return false
}

// ---------------------------------------------------------------- fmt etc.

func hostArg(v value) interface{} {
	switch x := v.(type) {
	case iface:
		if x.t == nil {
			return nil
		}
		// error values built by errors.New / fmt.Errorf: *errorString{ s }
		if p, ok := x.v.(*value); ok && p != nil {
			if st, ok := (*p).(structure); ok && len(st) == 1 {
				if s, ok := st[0].(string); ok {
					return s
				}
			}
			return fmt.Sprintf("&%s", x.t)
		}
		return hostArg(x.v)
	case bool, int, int8, int16, int32, int64, uint, uint8, uint16, uint32, uint64, uintptr, float32, float64, string:
		return x
	case sv:
		return "<symbolic>"
	case []value:
		allBytes := len(x) > 0
		bs := make([]byte, 0, len(x))
		for _, e := range x {
			b, ok := e.(byte)
			if !ok {
				allBytes = false
				break
			}
			bs = append(bs, b)
		}
		if allBytes {
			return bs
		}
		return fmt.Sprintf("[%d elems]", len(x))
	case structure:
		return "{struct}"
	case *value:
		if x == nil {
			return nil
		}
		return "&{...}"
	}
	return fmt.Sprintf("<%T>", v)
}

func hostFormat(a []value) string {
	format := a[0].(string)
	var args []interface{}
	if len(a) > 1 {
		for _, x := range a[1].([]value) {
			args = append(args, hostArg(x))
		}
	}
	// %w is only valid in Errorf; render it as %v
	format = strings.ReplaceAll(format, "%w", "%v")
	return fmt.Sprintf(format, args...)
}

func extSprintf(fr *frame, a []value) value { return hostFormat(a) }

func extErrorf(fr *frame, a []value) value {
	return fr.i.newError(fr, hostFormat(a))
}

func (i *interpreter) newError(fr *frame, msg string) value {
	pkg := i.prog.ImportedPackage("errors")
	if pkg == nil {
		i.unsupported("errors package not loaded")
	}
	return call(i, fr, fr.callpos, pkg.Func("New"), []value{msg})
}

func strSlice(ss []string) value {
	out := make([]value, len(ss))
	for k, s := range ss {
		out[k] = s
	}
	return out
}

func extParseInt(fr *frame, a []value) value {
	n, err := strconv.ParseInt(a[0].(string), int(asInt64(a[1])), int(asInt64(a[2])))
	if err != nil {
		return tuple{n, fr.i.newError(fr, err.Error())}
	}
	return tuple{n, iface{}}
}

func extPathJoin(fr *frame, a []value) value {
	var parts []string
	for _, x := range a[0].([]value) {
		parts = append(parts, x.(string))
	}
	return path.Join(parts...)
}

func extSortStrings(fr *frame, a []value) value {
	x := a[0].([]value)
	sort.Slice(x, func(i, j int) bool { return x[i].(string) < x[j].(string) })
	return nil
}

var _ = ssa.NaiveForm

const tokenADD = token.ADD

// crossCheck re-decides a sample of the assertion queries (PC ∧ ¬assertion)
// with two other solvers (z3 5.x and cvc5) from a standalone script; a
// disagreement makes the run inconclusive.
func (i *interpreter) crossCheck(neg *smt.Term, sat bool, label string) {
	n := atomic.AddInt64(&i.cfg.assertQueries, 1)
	if i.cfg.CrossCheckEvery <= 0 || (n > 8 && n%int64(i.cfg.CrossCheckEvery) != 0) {
		return
	}
	script := i.sol.Script(neg)
	want := smt.Unsat
	if sat {
		want = smt.Sat
	}
	for _, alt := range [][]string{{"z3-new", "-in"}, {"cvc5", "--incremental"}} {
		sc := script
		if alt[0] == "cvc5" {
			sc = "(set-logic QF_BV)\n" + script
		}
		res, _ := smt.RunScript(alt[0], alt[1:], sc, 60*time.Second)
		atomic.AddInt64(&i.cfg.crossChecks, 1)
		if res == smt.Unknown {
			atomic.AddInt64(&i.cfg.crossUnknown, 1)
			continue
		}
		if res != want {
			atomic.AddInt64(&i.cfg.crossDisagree, 1)
			i.noteInconclusive(fmt.Sprintf("solver disagreement on assertion %s: z3 4.8.12 says %v, %s says %v", label, want, alt[0], res))
		}
	}
}
