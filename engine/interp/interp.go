// Copyright 2013 The Go Authors. All rights reserved.
// Use of this source code is governed by a BSD-style
// license that can be found in the LICENSE file.

// Package interp is a symbolic executor for the SSA form of Go programs.
//
// It started as a copy of golang.org/x/tools/go/ssa/interp (v0.29.0) and
// keeps its boxed value representation. On top of that it adds:
//   - symbolic scalars (sv) backed by smt terms, with forking at branches
//     (DFS by re-execution, see explore.go),
//   - its own cooperative goroutine scheduler, channels, sync and atomic
//     models (sched.go) so that every run is deterministic given a decision
//     vector,
//   - intrinsics for the harness API and for library code that cannot be
//     interpreted (intrinsics.go).
package interp

import (
	"fmt"
	"go/token"
	"go/types"
	"os"
	"runtime"
	"slices"
	"sync"

	"golang.org/x/tools/go/ssa"

	"vx/smt"
)

type continuation int

const (
	kNext continuation = iota
	kReturn
	kJump
)

type methodSet map[string]*ssa.Function

// interpreter is the state of ONE path execution.
type interpreter struct {
	prog               *ssa.Program
	cfg                *Config
	globals            map[*ssa.Global]*value
	runtimeErrorString types.Type
	sizes              types.Sizes
	initDone           map[*ssa.Package]bool

	// symbolic state
	ctx   *smt.Ctx
	sol   *smt.Solver
	model smt.Model
	ps    *pathState

	// scheduler
	gs      []*goroutine
	cur     *goroutine
	yielded chan struct{}
	wg      sync.WaitGroup
	syncTab map[*value]*syncState
	condTab map[*value]*condState
	derived map[*value][][]value
	forceNext *goroutine
	tr        *trace

	steps int64
}

type deferred struct {
	fn    value
	args  []value
	instr *ssa.Defer
	tail  *deferred
}

type frame struct {
	i                *interpreter
	g                *goroutine
	caller           *frame
	fn               *ssa.Function
	block, prevBlock *ssa.BasicBlock
	env              []value // dynamic values of SSA variables (indexed by fnInfo)
	info             *fnInfo
	locals           []value
	defers           *deferred
	result           value
	panicking        bool
	panic            interface{}
	phitemps         []value // temporaries for parallel phi assignment
	callpos          token.Pos
}

func (fr *frame) get(key ssa.Value) value {
	switch key := key.(type) {
	case nil:
		// Hack; simplifies handling of optional attributes
		// such as ssa.Slice.{Low,High}.
		return nil
	case *ssa.Function, *ssa.Builtin:
		return key
	case *ssa.Const:
		return constValue(key)
	case *ssa.Global:
		return fr.i.global(key)
	}
	if n, ok := fr.info.idx[key]; ok {
		return fr.env[n]
	}
	panic(fmt.Sprintf("get: no value for %T: %v", key, key.Name()))
}

// fnInfo numbers the SSA values of a function so that a frame's
// environment is a slice instead of a map.
type fnInfo struct {
	idx map[ssa.Value]int
	n   int
}

var fnInfos sync.Map

func infoOf(fn *ssa.Function) *fnInfo {
	if v, ok := fnInfos.Load(fn); ok {
		return v.(*fnInfo)
	}
	in := &fnInfo{idx: map[ssa.Value]int{}}
	add := func(v ssa.Value) {
		if _, ok := in.idx[v]; !ok {
			in.idx[v] = in.n
			in.n++
		}
	}
	for _, p := range fn.Params {
		add(p)
	}
	for _, fv := range fn.FreeVars {
		add(fv)
	}
	for _, l := range fn.Locals {
		add(l)
	}
	for _, b := range fn.Blocks {
		for _, ins := range b.Instrs {
			if v, ok := ins.(ssa.Value); ok {
				add(v)
			}
		}
	}
	v, _ := fnInfos.LoadOrStore(fn, in)
	return v.(*fnInfo)
}

func (fr *frame) set(k ssa.Value, v value) { fr.env[fr.info.idx[k]] = v }

// global returns the address of a package-level variable, materialising
// it (zero value) on first use.
func (i *interpreter) global(g *ssa.Global) *value {
	if r, ok := i.globals[g]; ok {
		return r
	}
	cell := zero(deref(g.Type()))
	i.globals[g] = &cell
	return &cell
}

// runDefer runs a deferred call d.
// It always returns normally, but may set or clear fr.panic.
func (fr *frame) runDefer(d *deferred) {
	var ok bool
	defer func() {
		if !ok {
			// Deferred call created a new state of panic.
			r := recover()
			if isControlPanic(r) {
				panic(r)
			}
			fr.panicking = true
			fr.panic = r
		}
	}()
	call(fr.i, fr, d.instr.Pos(), d.fn, d.args)
	ok = true
}

// runDefers executes fr's deferred function calls in LIFO order.
func (fr *frame) runDefers() {
	for d := fr.defers; d != nil; d = d.tail {
		fr.runDefer(d)
	}
	fr.defers = nil
	if fr.panicking {
		panic(fr.panic) // new panic, or still panicking
	}
}

// lookupMethod returns the method set for type typ.
func lookupMethod(i *interpreter, typ types.Type, meth *types.Func) *ssa.Function {
	return i.prog.LookupMethod(typ, meth.Pkg(), meth.Name())
}

// visitInstr interprets a single ssa.Instruction within the activation
// record frame.  It returns a continuation value indicating where to
// read the next instruction from.
func visitInstr(fr *frame, instr ssa.Instruction) continuation {
	i := fr.i
	switch instr := instr.(type) {
	case *ssa.DebugRef:
		// no-op

	case *ssa.UnOp:
		fr.env[fr.info.idx[instr]] = unop(fr, instr, fr.get(instr.X))

	case *ssa.BinOp:
		fr.env[fr.info.idx[instr]] = binop(fr, instr.Op, instr.X.Type(), fr.get(instr.X), fr.get(instr.Y))

	case *ssa.Call:
		fn, args := prepareCall(fr, &instr.Call)
		fr.env[fr.info.idx[instr]] = call(fr.i, fr, instr.Pos(), fn, args)

	case *ssa.ChangeInterface:
		fr.env[fr.info.idx[instr]] = fr.get(instr.X)

	case *ssa.ChangeType:
		fr.env[fr.info.idx[instr]] = fr.get(instr.X) // (can't fail)

	case *ssa.Convert:
		fr.env[fr.info.idx[instr]] = conv(fr, instr.Type(), instr.X.Type(), fr.get(instr.X))

	case *ssa.SliceToArrayPointer:
		fr.env[fr.info.idx[instr]] = sliceToArrayPointer(instr.Type(), instr.X.Type(), fr.get(instr.X))

	case *ssa.MakeInterface:
		fr.env[fr.info.idx[instr]] = iface{t: instr.X.Type(), v: fr.get(instr.X)}

	case *ssa.Extract:
		fr.env[fr.info.idx[instr]] = fr.get(instr.Tuple).(tuple)[instr.Index]

	case *ssa.Slice:
		fr.env[fr.info.idx[instr]] = slice(fr, fr.get(instr.X), fr.get(instr.Low), fr.get(instr.High), fr.get(instr.Max))

	case *ssa.Return:
		switch len(instr.Results) {
		case 0:
		case 1:
			fr.result = fr.get(instr.Results[0])
		default:
			var res []value
			for _, r := range instr.Results {
				res = append(res, fr.get(r))
			}
			fr.result = tuple(res)
		}
		fr.block = nil
		return kReturn

	case *ssa.RunDefers:
		fr.runDefers()

	case *ssa.Panic:
		panic(targetPanic{fr.get(instr.X)})

	case *ssa.Send:
		i.chanSend(fr, fr.get(instr.Chan).(*channel), fr.get(instr.X))

	case *ssa.Store:
		addr := fr.get(instr.Addr).(*value)
		if addr != nil && i.traceWanted(fr) {
			i.traceCells(fr, addr, true, instr.Pos())
		}
		store(deref(instr.Addr.Type()), addr, fr.get(instr.Val))

	case *ssa.If:
		succ := 1
		var b bool
		switch c := fr.get(instr.Cond).(type) {
		case bool:
			b = c
		case sv:
			b = i.branch(fr, c.t)
		default:
			panic(fmt.Sprintf("if: unexpected cond %T", c))
		}
		if b {
			succ = 0
		}
		fr.prevBlock, fr.block = fr.block, fr.block.Succs[succ]
		return kJump

	case *ssa.Jump:
		fr.prevBlock, fr.block = fr.block, fr.block.Succs[0]
		return kJump

	case *ssa.Defer:
		fn, args := prepareCall(fr, &instr.Call)
		defers := &fr.defers
		if into := fr.get(instr.DeferStack); into != nil {
			defers = into.(**deferred)
		}
		*defers = &deferred{
			fn:    fn,
			args:  args,
			instr: instr,
			tail:  *defers,
		}

	case *ssa.Go:
		fn, args := prepareCall(fr, &instr.Call)
		i.spawn(fr, instr.Pos(), fn, args)

	case *ssa.MakeChan:
		fr.env[fr.info.idx[instr]] = i.newChannel(int(i.concInt(fr, fr.get(instr.Size))))

	case *ssa.Alloc:
		var addr *value
		if instr.Heap {
			// new
			addr = new(value)
			fr.env[fr.info.idx[instr]] = addr
		} else {
			// local
			addr = fr.env[fr.info.idx[instr]].(*value)
		}
		*addr = zero(deref(instr.Type()))

	case *ssa.MakeSlice:
		c := i.concInt(fr, fr.get(instr.Cap))
		l := i.concInt(fr, fr.get(instr.Len))
		if l < 0 || c < l {
			panic(runtimeError("makeslice: len out of range"))
		}
		if c > 1<<26 {
			i.unsupported(fmt.Sprintf("make of %d elements", c))
		}
		slice := make([]value, c)
		tElt := instr.Type().Underlying().(*types.Slice).Elem()
		if isSimple(tElt) {
			z := zero(tElt)
			for i := range slice {
				slice[i] = z
			}
		} else {
			for i := range slice {
				slice[i] = zero(tElt)
			}
		}
		fr.env[fr.info.idx[instr]] = slice[:l]

	case *ssa.MakeMap:
		fr.env[fr.info.idx[instr]] = makeMap(instr.Type().Underlying().(*types.Map).Key(), 0)

	case *ssa.Range:
		if i.traceWanted(fr) {
			i.traceMap(fr, fr.get(instr.X), false, instr.Pos())
		}
		fr.env[fr.info.idx[instr]] = rangeIter(fr, fr.get(instr.X), instr.X.Type())

	case *ssa.Next:
		fr.env[fr.info.idx[instr]] = fr.get(instr.Iter).(iter).next()

	case *ssa.FieldAddr:
		p := fr.get(instr.X).(*value)
		if p == nil {
			panic(runtimeError("invalid memory address or nil pointer dereference"))
		}
		fr.env[fr.info.idx[instr]] = &(*p).(structure)[instr.Field]

	case *ssa.Field:
		fr.env[fr.info.idx[instr]] = fr.get(instr.X).(structure)[instr.Field]

	case *ssa.IndexAddr:
		x := fr.get(instr.X)
		idx := i.concInt(fr, fr.get(instr.Index))
		switch x := x.(type) {
		case []value:
			if idx < 0 || idx >= int64(len(x)) {
				panic(runtimeError(fmt.Sprintf("index out of range [%d] with length %d", idx, len(x))))
			}
			fr.env[fr.info.idx[instr]] = &x[idx]
		case *value: // *array
			if x == nil {
				panic(runtimeError("invalid memory address or nil pointer dereference"))
			}
			a := (*x).(array)
			if idx < 0 || idx >= int64(len(a)) {
				panic(runtimeError(fmt.Sprintf("index out of range [%d] with length %d", idx, len(a))))
			}
			fr.env[fr.info.idx[instr]] = &a[idx]
		default:
			panic(fmt.Sprintf("unexpected x type in IndexAddr: %T", x))
		}

	case *ssa.Index:
		x := fr.get(instr.X)
		idx := i.concInt(fr, fr.get(instr.Index))

		switch x := x.(type) {
		case array:
			if idx < 0 || idx >= int64(len(x)) {
				panic(runtimeError(fmt.Sprintf("index out of range [%d] with length %d", idx, len(x))))
			}
			fr.env[fr.info.idx[instr]] = x[idx]
		case string:
			if idx < 0 || idx >= int64(len(x)) {
				panic(runtimeError(fmt.Sprintf("index out of range [%d] with length %d", idx, len(x))))
			}
			fr.env[fr.info.idx[instr]] = x[idx]
		default:
			panic(fmt.Sprintf("unexpected x type in Index: %T", x))
		}

	case *ssa.Lookup:
		if i.traceWanted(fr) {
			i.traceMap(fr, fr.get(instr.X), false, instr.Pos())
		}
		fr.env[fr.info.idx[instr]] = lookup(fr, instr, fr.get(instr.X), fr.get(instr.Index))

	case *ssa.MapUpdate:
		m := fr.get(instr.Map)
		if i.traceWanted(fr) {
			i.traceMap(fr, m, true, instr.Pos())
		}
		key := i.concKey(fr, fr.get(instr.Key))
		v := fr.get(instr.Value)
		switch m := m.(type) {
		case *omap:
			if m == nil {
				panic(runtimeError("assignment to entry in nil map"))
			}
			m.insert(key, v)
		case *hashmap:
			if m == nil {
				panic(runtimeError("assignment to entry in nil map"))
			}
			m.insert(key.(hashable), v)
		default:
			panic(fmt.Sprintf("illegal map type: %T", m))
		}

	case *ssa.TypeAssert:
		fr.env[fr.info.idx[instr]] = typeAssert(fr.i, instr, fr.get(instr.X).(iface))

	case *ssa.MakeClosure:
		var bindings []value
		for _, binding := range instr.Bindings {
			bindings = append(bindings, fr.get(binding))
		}
		fr.env[fr.info.idx[instr]] = &closure{instr.Fn.(*ssa.Function), bindings}

	case *ssa.Phi:
		panic("unreachable: phis are processed at block entry")

	case *ssa.Select:
		fr.env[fr.info.idx[instr]] = i.doSelect(fr, instr)

	default:
		panic(fmt.Sprintf("unexpected instruction: %T", instr))
	}

	return kNext
}

func isSimple(t types.Type) bool {
	_, ok := t.Underlying().(*types.Basic)
	return ok
}

// prepareCall determines the function value and argument values for a
// function call in a Call, Go or Defer instruction, performing
// interface method lookup if needed.
func prepareCall(fr *frame, call *ssa.CallCommon) (fn value, args []value) {
	v := fr.get(call.Value)
	if call.Method == nil {
		// Function call.
		fn = v
	} else {
		// Interface method invocation.
		recv := v.(iface)
		if recv.t == nil {
			panic(runtimeError("invalid memory address or nil pointer dereference (method " + call.Method.Name() + " on nil interface)"))
		}
		if f := lookupMethod(fr.i, recv.t, call.Method); f == nil {
			// Unreachable in well-typed programs.
			panic(fmt.Sprintf("method set for dynamic type %v does not contain %s", recv.t, call.Method))
		} else {
			fn = f
		}
		args = append(args, recv.v)
	}
	for _, arg := range call.Args {
		args = append(args, fr.get(arg))
	}
	return
}

// call interprets a call to a function (function, builtin or closure)
// fn with arguments args, returning its result.
// callpos is the position of the callsite.
func call(i *interpreter, caller *frame, callpos token.Pos, fn value, args []value) value {
	switch fn := fn.(type) {
	case *ssa.Function:
		if fn == nil {
			panic(runtimeError("call of nil function")) // nil of func type
		}
		return callSSA(i, caller, callpos, fn, args, nil)
	case *closure:
		return callSSA(i, caller, callpos, fn.Fn, args, fn.Env)
	case *ssa.Builtin:
		return callBuiltin(caller, callpos, fn, args)
	}
	panic(fmt.Sprintf("cannot call %T", fn))
}

func loc(fset *token.FileSet, pos token.Pos) string {
	if pos == token.NoPos {
		return ""
	}
	return " at " + fset.Position(pos).String()
}

// callSSA interprets a call to function fn with arguments args,
// and lexical environment env, returning its result.
// callpos is the position of the callsite.
func callSSA(i *interpreter, caller *frame, callpos token.Pos, fn *ssa.Function, args []value, env []value) value {
	fr := &frame{
		i:       i,
		caller:  caller, // for panic/recover
		fn:      fn,
		callpos: callpos,
	}
	if caller != nil {
		fr.g = caller.g
	} else {
		fr.g = i.cur
	}
	if fn.Parent() == nil {
		name := fn.String()
		if ext := externals[name]; ext != nil {
			i.cfg.noteExt(name)
			return ext(fr, args)
		}
		if red, ok := i.cfg.redirects[name]; ok && red != nil {
			i.cfg.noteExt(name + " -> " + red.Name())
			return callSSA(i, caller, callpos, red, args, nil)
		}
		if fn.Name() == "init" && fn.Signature.Recv() == nil && fn.Pkg != nil && fn.Synthetic != "" {
			if !i.cfg.initAllowed(fn.Pkg) {
				return nil
			}
		}
		if fn.Blocks == nil {
			if fn.Pkg != nil {
				fn.Pkg.Build()
			}
			if fn.Blocks == nil {
				i.unsupported("no code for function: " + name)
			}
		}
	}

	// generic function body?
	if fn.TypeParams().Len() > 0 && len(fn.TypeArgs()) == 0 {
		panic("interp requires ssa.BuilderMode to include InstantiateGenerics to execute generics")
	}

	i.cfg.noteFunc(fn)

	fr.info = infoOf(fn)
	fr.env = make([]value, fr.info.n)
	fr.block = fn.Blocks[0]
	fr.locals = make([]value, len(fn.Locals))
	for i, l := range fn.Locals {
		fr.locals[i] = zero(deref(l.Type()))
		fr.env[fr.info.idx[l]] = &fr.locals[i]
	}
	for i, p := range fn.Params {
		fr.env[fr.info.idx[p]] = args[i]
	}
	for i, fv := range fn.FreeVars {
		fr.env[fr.info.idx[fv]] = env[i]
	}
	for fr.block != nil {
		runFrame(fr)
	}
	// Destroy the locals to avoid accidental use after return.
	for i := range fn.Locals {
		fr.locals[i] = bad{}
	}
	return fr.result
}

// runFrame executes SSA instructions starting at fr.block and
// continuing until a return, a panic, or a recovered panic.
func runFrame(fr *frame) {
	defer func() {
		if fr.block == nil {
			return // normal return
		}
		r := recover()
		if isControlPanic(r) {
			panic(r) // path end / kill: unwind without running target defers
		}
		fr.panicking = true
		fr.panic = r
		if fr.g != nil && fr.g.panicTrace == "" {
			fr.g.panicTrace = fr.stack()
		}
		fr.runDefers()
		fr.block = fr.fn.Recover
	}()

	for {
		nonPhis := executePhis(fr)
		for _, instr := range nonPhis {
			fr.i.steps++
			if fr.i.steps > fr.i.cfg.MaxSteps {
				fr.i.inconclusive("step budget exceeded (unwinding bound)")
			}
			if visitInstr(fr, instr) == kReturn {
				return
			}
			// Inv: kNext (continue) or kJump (last instr)
		}
	}
}

func (fr *frame) stack() string {
	s := ""
	n := 0
	for f := fr; f != nil && n < 12; f = f.caller {
		s += f.fn.String() + loc(f.fn.Prog.Fset, f.callpos) + "\n"
		n++
	}
	return s
}

// executePhis executes the phi-nodes at the start of the current
// block and returns the non-phi instructions.
func executePhis(fr *frame) []ssa.Instruction {
	firstNonPhi := -1
	for i, instr := range fr.block.Instrs {
		if _, ok := instr.(*ssa.Phi); !ok {
			firstNonPhi = i
			break
		}
	}
	// Inv: 0 <= firstNonPhi; every block contains a non-phi.

	nonPhis := fr.block.Instrs[firstNonPhi:]
	if firstNonPhi > 0 {
		phis := fr.block.Instrs[:firstNonPhi]
		predIndex := slices.Index(fr.block.Preds, fr.prevBlock)
		fr.phitemps = fr.phitemps[:0]
		for _, phi := range phis {
			phi := phi.(*ssa.Phi)
			fr.phitemps = append(fr.phitemps, fr.get(phi.Edges[predIndex]))
		}
		for i, phi := range phis {
			fr.env[fr.info.idx[phi.(*ssa.Phi)]] = fr.phitemps[i]
		}
	}
	return nonPhis
}

// doRecover implements the recover() built-in.
func doRecover(caller *frame) value {
	// recover() must be exactly one level beneath the deferred
	// function (two levels beneath the panicking function) to
	// have any effect.  Thus we ignore both "defer recover()" and
	// "defer f() -> g() -> recover()".
	if caller != nil && !caller.panicking &&
		caller.caller != nil && caller.caller.panicking {
		caller.caller.panicking = false
		p := caller.caller.panic
		caller.caller.panic = nil

		switch p := p.(type) {
		case targetPanic:
			// The target program explicitly called panic().
			return p.v
		case runtime.Error:
			// The interpreter encountered a runtime error.
			return iface{caller.i.runtimeErrorString, p.Error()}
		case string:
			// The interpreter explicitly called panic().
			return iface{caller.i.runtimeErrorString, p}
		default:
			panic(fmt.Sprintf("unexpected panic type %T in target call to recover()", p))
		}
	}
	return iface{}
}

// runtimeError is a Go run-time panic raised by the executor on behalf of
// the target program (index out of range, nil dereference, ...).
type runtimeError string

func (e runtimeError) Error() string { return "runtime error: " + string(e) }
func (e runtimeError) RuntimeError() {}

func deref(t types.Type) types.Type {
	if p, ok := t.Underlying().(*types.Pointer); ok {
		return p.Elem()
	}
	panic(fmt.Sprintf("deref: not a pointer: %v", t))
}

var _ = os.Stderr
