package interp

// A small go/types-directed JSON codec over executor values, standing in
// for encoding/json (which is reflection-based and cannot be interpreted).
// It covers the kinds that moss's Header/Footer use: structs with exported
// fields (json:"-" and name tags honoured), integers, bools, strings,
// float64, pointers, slices, and maps with string keys (sorted on output,
// as encoding/json does). All data must be concrete.

import (
	"bytes"
	"encoding/json"
	"fmt"
	"go/types"
	"reflect"
	"sort"
	"strconv"
	"strings"
)

func init() {
	externals["encoding/json.Marshal"] = extJSONMarshal
	externals["encoding/json.Unmarshal"] = extJSONUnmarshal
}

func extJSONMarshal(fr *frame, a []value) value {
	itf := a[0].(iface)
	var buf bytes.Buffer
	if err := jsonEncode(fr, &buf, itf.t, itf.v); err != nil {
		return tuple{[]value(nil), fr.i.newError(fr, err.Error())}
	}
	out := make([]value, buf.Len())
	for k, b := range buf.Bytes() {
		out[k] = b
	}
	return tuple{out, iface{}}
}

func jsonFieldName(f *types.Var, tag string) (name string, skip bool, omitempty bool) {
	if !f.Exported() {
		return "", true, false
	}
	name = f.Name()
	jt := reflect.StructTag(tag).Get("json")
	if jt == "-" {
		return "", true, false
	}
	if jt != "" {
		parts := strings.Split(jt, ",")
		if parts[0] != "" {
			name = parts[0]
		}
		for _, p := range parts[1:] {
			if p == "omitempty" {
				omitempty = true
			}
		}
	}
	return name, false, false || omitempty
}

func jsonEncode(fr *frame, buf *bytes.Buffer, t types.Type, v value) error {
	if isSym(v) {
		fr.i.unsupported("json.Marshal of a symbolic value")
	}
	switch tt := t.Underlying().(type) {
	case *types.Basic:
		switch x := v.(type) {
		case bool:
			buf.WriteString(strconv.FormatBool(x))
		case string:
			b, _ := json.Marshal(x)
			buf.Write(b)
		case float64:
			b, err := json.Marshal(x)
			if err != nil {
				return err
			}
			buf.Write(b)
		case float32:
			b, err := json.Marshal(x)
			if err != nil {
				return err
			}
			buf.Write(b)
		case uint, uint8, uint16, uint32, uint64, uintptr:
			u, _ := asUnsigned(x)
			buf.WriteString(strconv.FormatUint(asUint64(u), 10))
		default:
			buf.WriteString(strconv.FormatInt(asInt64(x), 10))
		}
	case *types.Pointer:
		p := v.(*value)
		if p == nil {
			buf.WriteString("null")
			return nil
		}
		return jsonEncode(fr, buf, tt.Elem(), load(tt.Elem(), p))
	case *types.Struct:
		s := v.(structure)
		buf.WriteByte('{')
		first := true
		for n := 0; n < tt.NumFields(); n++ {
			f := tt.Field(n)
			name, skip, omit := jsonFieldName(f, tt.Tag(n))
			if skip {
				continue
			}
			// functions, channels, interfaces holding funcs: unsupported by encoding/json
			switch f.Type().Underlying().(type) {
			case *types.Signature, *types.Chan:
				return fmt.Errorf("json: unsupported type: %s", f.Type())
			}
			if omit && jsonIsEmpty(s[n]) {
				continue
			}
			if !first {
				buf.WriteByte(',')
			}
			first = false
			b, _ := json.Marshal(name)
			buf.Write(b)
			buf.WriteByte(':')
			if err := jsonEncode(fr, buf, f.Type(), s[n]); err != nil {
				return err
			}
		}
		buf.WriteByte('}')
	case *types.Slice:
		s := v.([]value)
		if s == nil {
			buf.WriteString("null")
			return nil
		}
		if b, ok := tt.Elem().Underlying().(*types.Basic); ok && b.Kind() == types.Uint8 {
			raw := make([]byte, len(s))
			for k, x := range s {
				bb, ok := x.(byte)
				if !ok {
					fr.i.unsupported("json.Marshal of symbolic bytes")
				}
				raw[k] = bb
			}
			jb, _ := json.Marshal(raw)
			buf.Write(jb)
			return nil
		}
		buf.WriteByte('[')
		for k, x := range s {
			if k > 0 {
				buf.WriteByte(',')
			}
			if err := jsonEncode(fr, buf, tt.Elem(), x); err != nil {
				return err
			}
		}
		buf.WriteByte(']')
	case *types.Array:
		s := v.(array)
		buf.WriteByte('[')
		for k, x := range s {
			if k > 0 {
				buf.WriteByte(',')
			}
			if err := jsonEncode(fr, buf, tt.Elem(), x); err != nil {
				return err
			}
		}
		buf.WriteByte(']')
	case *types.Map:
		m, _ := v.(*omap)
		if m == nil {
			buf.WriteString("null")
			return nil
		}
		type kv struct {
			k string
			v value
		}
		var kvs []kv
		for _, e := range m.order {
			if e.dead {
				continue
			}
			ks, ok := e.key.(string)
			if !ok {
				return fmt.Errorf("json: unsupported map key type")
			}
			kvs = append(kvs, kv{ks, e.val})
		}
		sort.Slice(kvs, func(a, b int) bool { return kvs[a].k < kvs[b].k })
		buf.WriteByte('{')
		for k, e := range kvs {
			if k > 0 {
				buf.WriteByte(',')
			}
			b, _ := json.Marshal(e.k)
			buf.Write(b)
			buf.WriteByte(':')
			if err := jsonEncode(fr, buf, tt.Elem(), e.v); err != nil {
				return err
			}
		}
		buf.WriteByte('}')
	case *types.Interface:
		x := v.(iface)
		if x.t == nil {
			buf.WriteString("null")
			return nil
		}
		return jsonEncode(fr, buf, x.t, x.v)
	default:
		return fmt.Errorf("json: unsupported type: %s", t)
	}
	return nil
}

func jsonIsEmpty(v value) bool {
	switch x := v.(type) {
	case bool:
		return !x
	case string:
		return x == ""
	case []value:
		return len(x) == 0
	case *value:
		return x == nil
	case *omap:
		return x.len() == 0
	case iface:
		return x.t == nil
	}
	if _, ok := kindOf(v); ok {
		return asInt64(v) == 0
	}
	return false
}

func extJSONUnmarshal(fr *frame, a []value) value {
	data := a[0].([]value)
	raw := make([]byte, len(data))
	for k, x := range data {
		b, ok := x.(byte)
		if !ok {
			if _, isP := x.(poison); isP {
				panic(runtimeError("read of unmapped memory"))
			}
			fr.i.unsupported("json.Unmarshal of symbolic bytes")
		}
		raw[k] = b
	}
	dst := a[1].(iface)
	pt, ok := dst.t.Underlying().(*types.Pointer)
	if !ok || dst.v.(*value) == nil {
		return fr.i.newError(fr, "json: Unmarshal(non-pointer)")
	}
	dec := json.NewDecoder(bytes.NewReader(raw))
	dec.UseNumber()
	var tree interface{}
	if err := dec.Decode(&tree); err != nil {
		return fr.i.newError(fr, err.Error())
	}
	// trailing garbage is an error for json.Unmarshal
	var extra interface{}
	if err := dec.Decode(&extra); err == nil {
		return fr.i.newError(fr, "invalid character after top-level value")
	}
	p := dst.v.(*value)
	nv, err := jsonDecode(fr, pt.Elem(), tree, load(pt.Elem(), p))
	if err != nil {
		return fr.i.newError(fr, err.Error())
	}
	store(pt.Elem(), p, nv)
	return iface{}
}

func jsonDecode(fr *frame, t types.Type, tree interface{}, old value) (value, error) {
	if tree == nil {
		switch t.Underlying().(type) {
		case *types.Pointer, *types.Slice, *types.Map, *types.Interface:
			return zero(t), nil
		}
		return old, nil // null leaves non-nillable values unchanged
	}
	switch tt := t.Underlying().(type) {
	case *types.Basic:
		switch {
		case tt.Kind() == types.Bool:
			b, ok := tree.(bool)
			if !ok {
				return nil, fmt.Errorf("json: cannot unmarshal %T into Go value of type %s", tree, t)
			}
			return b, nil
		case tt.Kind() == types.String:
			s, ok := tree.(string)
			if !ok {
				return nil, fmt.Errorf("json: cannot unmarshal %T into Go value of type %s", tree, t)
			}
			return s, nil
		case tt.Info()&types.IsInteger != 0:
			n, ok := tree.(json.Number)
			if !ok {
				return nil, fmt.Errorf("json: cannot unmarshal %T into Go value of type %s", tree, t)
			}
			if tt.Info()&types.IsUnsigned != 0 {
				u, err := strconv.ParseUint(string(n), 10, kindBits(tt.Kind()))
				if err != nil {
					return nil, fmt.Errorf("json: cannot unmarshal number %s into Go value of type %s", n, t)
				}
				return constOfKind(u, tt.Kind()), nil
			}
			iv, err := strconv.ParseInt(string(n), 10, kindBits(tt.Kind()))
			if err != nil {
				return nil, fmt.Errorf("json: cannot unmarshal number %s into Go value of type %s", n, t)
			}
			return constOfKind(uint64(iv), tt.Kind()), nil
		case tt.Kind() == types.Float64:
			n, ok := tree.(json.Number)
			if !ok {
				return nil, fmt.Errorf("json: cannot unmarshal %T into Go value of type %s", tree, t)
			}
			f, err := n.Float64()
			if err != nil {
				return nil, err
			}
			return f, nil
		}
		return nil, fmt.Errorf("json: unsupported basic type %s", t)
	case *types.Pointer:
		var cur value
		if p, ok := old.(*value); ok && p != nil {
			cur = load(tt.Elem(), p)
		} else {
			cur = zero(tt.Elem())
		}
		nv, err := jsonDecode(fr, tt.Elem(), tree, cur)
		if err != nil {
			return nil, err
		}
		cell := new(value)
		*cell = zero(tt.Elem())
		store(tt.Elem(), cell, nv)
		return cell, nil
	case *types.Struct:
		obj, ok := tree.(map[string]interface{})
		if !ok {
			return nil, fmt.Errorf("json: cannot unmarshal %T into Go value of type %s", tree, t)
		}
		s := make(structure, tt.NumFields())
		copy(s, old.(structure))
		for n := 0; n < tt.NumFields(); n++ {
			f := tt.Field(n)
			name, skip, _ := jsonFieldName(f, tt.Tag(n))
			if skip {
				continue
			}
			sub, present := obj[name]
			if !present {
				for k, v := range obj {
					if strings.EqualFold(k, name) {
						sub, present = v, true
						break
					}
				}
			}
			if !present {
				continue
			}
			nv, err := jsonDecode(fr, f.Type(), sub, s[n])
			if err != nil {
				return nil, err
			}
			s[n] = nv
		}
		return s, nil
	case *types.Slice:
		arr, ok := tree.([]interface{})
		if !ok {
			return nil, fmt.Errorf("json: cannot unmarshal %T into Go value of type %s", tree, t)
		}
		out := make([]value, len(arr))
		for k, e := range arr {
			nv, err := jsonDecode(fr, tt.Elem(), e, zero(tt.Elem()))
			if err != nil {
				return nil, err
			}
			out[k] = nv
		}
		return out, nil
	case *types.Map:
		obj, ok := tree.(map[string]interface{})
		if !ok {
			return nil, fmt.Errorf("json: cannot unmarshal %T into Go value of type %s", tree, t)
		}
		m, _ := old.(*omap)
		if m == nil {
			m = makeMap(tt.Key(), 0).(*omap)
		}
		keys := make([]string, 0, len(obj))
		for k := range obj {
			keys = append(keys, k)
		}
		sort.Strings(keys)
		for _, k := range keys {
			nv, err := jsonDecode(fr, tt.Elem(), obj[k], zero(tt.Elem()))
			if err != nil {
				return nil, err
			}
			m.insert(k, nv)
		}
		return m, nil
	}
	return nil, fmt.Errorf("json: unsupported type %s", t)
}

func kindBits(k types.BasicKind) int {
	w := kindWidth(k)
	if w == 0 {
		return 64
	}
	return w
}
