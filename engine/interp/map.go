// Copyright 2013 The Go Authors. All rights reserved.
// Use of this source code is governed by a BSD-style
// license that can be found in the LICENSE file.

package interp

// Custom hashtable atop map.
// For use when the key's equivalence relation is not consistent with ==.

// The Go specification doesn't address the atomicity of map operations.
// The FAQ states that an implementation is permitted to crash on
// concurrent map access.

import (
	"go/types"
)

type hashable interface {
	hash(t types.Type) int
	eq(t types.Type, x interface{}) bool
}

type entry struct {
	key   hashable
	value value
	next  *entry
}

// A hashtable atop the built-in map.  Since each bucket contains
// exactly one hash value, there's no need to perform hash-equality
// tests when walking the linked list.  Rehashing is done by the
// underlying map.
type hashmap struct {
	keyType types.Type
	table   map[int]*entry
	length  int // number of entries in map
	order   []*entry
	cell    value
}

type hashmapIter struct {
	m    *hashmap
	ents []*entry
	pos  int
}

func (m *hashmap) iterator(fr *frame) iter {
	it := &hashmapIter{m: m}
	if m != nil {
		it.ents = append(it.ents, m.order...)
	}
	return it
}

func (it *hashmapIter) next() tuple {
	for it.pos < len(it.ents) {
		e := it.ents[it.pos]
		it.pos++
		if it.m.lookup(e.key) == nil {
			continue
		}
		return []value{true, e.key, e.value}
	}
	return []value{false, nil, nil}
}

// makeMap returns an empty initialized map of key type kt,
// preallocating space for reserve elements.
func makeMap(kt types.Type, reserve int64) value {
	if usesBuiltinMap(kt) {
		return &omap{idx: make(map[value]*oentry)}
	}
	return &hashmap{keyType: kt, table: make(map[int]*entry, reserve)}
}

// omap is an insertion-ordered map for key types whose Go equality is
// consistent with the boxed representation. Iteration order is the
// insertion order (deterministic; the executor forks over permutations
// when Config.PermuteMaps is set).
type oentry struct {
	key, val value
	dead     bool
}

type omap struct {
	cell  value // identity of the map for access tracing
	idx   map[value]*oentry
	order []*oentry
	live  int
}

func (m *omap) lookup(k value) (value, bool) {
	if m == nil {
		return nil, false
	}
	e, ok := m.idx[k]
	if !ok {
		return nil, false
	}
	return e.val, true
}

func (m *omap) insert(k, v value) {
	if e, ok := m.idx[k]; ok {
		e.val = v
		return
	}
	e := &oentry{key: k, val: v}
	m.idx[k] = e
	m.order = append(m.order, e)
	m.live++
}

func (m *omap) delete(k value) {
	if m == nil {
		return
	}
	if e, ok := m.idx[k]; ok {
		e.dead = true
		delete(m.idx, k)
		m.live--
	}
}

func (m *omap) len() int {
	if m == nil {
		return 0
	}
	return m.live
}

type omapIter struct {
	ents []*oentry
	pos  int
}

// iterator snapshots the live entries; entries deleted during iteration
// are skipped, entries added during iteration are not visited (both are
// behaviours the Go spec allows).
func (m *omap) iterator(fr *frame) iter {
	it := &omapIter{}
	if m != nil {
		for _, e := range m.order {
			if !e.dead {
				it.ents = append(it.ents, e)
			}
		}
		if fr != nil && fr.i.cfg.PermuteMaps && len(it.ents) > 1 && fr.fn.Pkg != nil && fr.i.cfg.isTarget(fr.fn.Pkg) {
			// choose a permutation: pick the first element, then the next, ...
			n := len(it.ents)
			for a := 0; a < n-1; a++ {
				k := fr.i.choose(n - a)
				it.ents[a], it.ents[a+k] = it.ents[a+k], it.ents[a]
			}
		}
	}
	return it
}

func (it *omapIter) next() tuple {
	for it.pos < len(it.ents) {
		e := it.ents[it.pos]
		it.pos++
		if e.dead {
			continue
		}
		return []value{true, e.key, e.val}
	}
	return []value{false, nil, nil}
}

// delete removes the association for key k, if any.
func (m *hashmap) delete(k hashable) {
	if m != nil {
		hash := k.hash(m.keyType)
		head := m.table[hash]
		if head != nil {
			if k.eq(m.keyType, head.key) {
				m.table[hash] = head.next
				m.length--
				return
			}
			prev := head
			for e := head.next; e != nil; e = e.next {
				if k.eq(m.keyType, e.key) {
					prev.next = e.next
					m.length--
					return
				}
				prev = e
			}
		}
	}
}

// lookup returns the value associated with key k, if present, or
// value(nil) otherwise.
func (m *hashmap) lookup(k hashable) value {
	if m != nil {
		hash := k.hash(m.keyType)
		for e := m.table[hash]; e != nil; e = e.next {
			if k.eq(m.keyType, e.key) {
				return e.value
			}
		}
	}
	return nil
}

// insert updates the map to associate key k with value v.  If there
// was already an association for an eq() (though not necessarily ==)
// k, the previous key remains in the map and its associated value is
// updated.
func (m *hashmap) insert(k hashable, v value) {
	hash := k.hash(m.keyType)
	head := m.table[hash]
	for e := head; e != nil; e = e.next {
		if k.eq(m.keyType, e.key) {
			e.value = v
			return
		}
	}
	e := &entry{
		key:   k,
		value: v,
		next:  head,
	}
	m.table[hash] = e
	m.order = append(m.order, e)
	m.length++
}

// len returns the number of key/value associations in the map.
func (m *hashmap) len() int {
	if m != nil {
		return m.length
	}
	return 0
}

// entries returns a rangeable map of entries.
func (m *hashmap) entries() map[int]*entry {
	if m != nil {
		return m.table
	}
	return nil
}
