package interp

// Cooperative scheduler: every interpreted goroutine runs in its own host
// goroutine but only the one holding the baton executes. All blocking
// operations (channels, select, sync.Mutex, sync.Cond, WaitGroup, Sleep)
// are modelled here, so a run is a deterministic function of the decision
// vector.

import (
	"fmt"
	"go/token"
	"go/types"
	"sort"

	"golang.org/x/tools/go/ssa"
)

type goroutine struct {
	id         int
	name       string
	resume     chan bool // true: run; false: die
	started    bool
	done       bool
	ready      func() bool // nil: runnable
	idleOnly   bool        // only runnable when nobody else is (quiesce / sleep)
	why        string
	panicTrace string
	// rendezvous slots
	recvVal value
	recvOK  bool
	recvMsg int
	wake    bool
	wakeBy  int // index of the signal/broadcast event that woke a cond waiter
}

// control panics unwind a host goroutine without running target defers.
type pathEndPanic struct{}
type killedPanic struct{}

func isControlPanic(r interface{}) bool {
	switch r.(type) {
	case pathEndPanic, killedPanic:
		return true
	}
	return false
}

func (i *interpreter) spawn(fr *frame, pos token.Pos, fn value, args []value) *goroutine {
	g := &goroutine{id: len(i.gs), resume: make(chan bool)}
	switch f := fn.(type) {
	case *ssa.Function:
		g.name = f.String()
	case *closure:
		g.name = f.Fn.String()
	}
	if len(i.gs) >= i.cfg.MaxGoroutines {
		h := map[string]int{}
		for _, x := range i.gs {
			st := "done"
			if !x.done {
				st = "live:" + x.why
			}
			h[x.name+" ["+st+"]"]++
		}
		i.inconclusive(fmt.Sprintf("goroutine budget exceeded: %v", h))
	}
	i.gs = append(i.gs, g)
	i.traceSync(fr, evGo, nil, 0, g.id)
	i.wg.Add(1)
	go func() {
		defer i.wg.Done()
		if !<-g.resume {
			return
		}
		g.started = true
		root := &frame{i: i, g: g, fn: rootFn(fn)}
		i.traceSync(root, evStart, nil, 0, 0)
		defer func() {
			r := recover()
			g.done = true
			switch r.(type) {
			case nil:
			case killedPanic:
				return // scheduler is tearing down; do not signal
			case pathEndPanic:
			default:
				// unrecovered target panic: the whole program dies
				if i.ps.out.kind == oNone {
					i.ps.out = outcome{kind: oPanic, msg: panicString(r), detail: g.panicTrace, gor: g.name}
				}
			}
			i.yielded <- struct{}{}
		}()
		call(i, root, pos, fn, args)
		i.traceSync(root, evExit, nil, 0, 0)
	}()
	return g
}

func rootFn(fn value) *ssa.Function {
	switch f := fn.(type) {
	case *ssa.Function:
		return f
	case *closure:
		return f.Fn
	}
	return nil
}

func panicString(r interface{}) string {
	switch p := r.(type) {
	case targetPanic:
		return "panic: " + toString(p.v)
	case error:
		return "panic: " + p.Error()
	case unsupportedPanic:
		return "unsupported: " + p.msg
	default:
		return fmt.Sprintf("panic: %v", r)
	}
}

// park blocks the current goroutine until ready() holds.
func (i *interpreter) park(g *goroutine, why string, ready func() bool) {
	g.ready = ready
	g.why = why
	i.yielded <- struct{}{}
	if !<-g.resume {
		panic(killedPanic{})
	}
	g.ready = nil
	g.idleOnly = false
	g.why = ""
}

// yieldIdle parks until every other goroutine is blocked or finished.
func (i *interpreter) yieldIdle(g *goroutine, why string) {
	g.idleOnly = true
	i.park(g, why, func() bool { return true })
}

// yieldToOther lets the next runnable goroutine (round robin by id) run
// until it blocks, then the caller continues.
func (i *interpreter) yieldToOther(g *goroutine) {
	n := len(i.gs)
	for k := 1; k < n; k++ {
		o := i.gs[(g.id+k)%n]
		if o != g && !o.idleOnly && o.runnable() {
			i.forceNext = o
			break
		}
	}
	i.park(g, "yield", func() bool { return true })
}

func (g *goroutine) runnable() bool {
	if g.done {
		return false
	}
	return g.ready == nil || g.ready()
}

// pick chooses the next goroutine: lowest id among the runnable ones that
// are not idle-waiters; idle-waiters only when nothing else can run.
func (i *interpreter) pick() *goroutine {
	if f := i.forceNext; f != nil {
		i.forceNext = nil
		if f.runnable() {
			return f
		}
	}
	var idle *goroutine
	for _, g := range i.gs {
		if !g.runnable() {
			continue
		}
		if g.idleOnly {
			if idle == nil {
				idle = g
			}
			continue
		}
		return g
	}
	return idle
}

// schedLoop runs goroutines until the harness (g0) finishes, the path
// ends, or nothing can run.
func (i *interpreter) schedLoop() {
	for {
		if i.ps.out.kind != oNone || i.gs[0].done {
			break
		}
		g := i.pick()
		if g == nil {
			desc := ""
			for _, g := range i.gs {
				if !g.done {
					desc += fmt.Sprintf("g%d %s: %s; ", g.id, g.name, g.why)
				}
			}
			i.ps.out = outcome{kind: oDeadlock, msg: "deadlock: all goroutines blocked", detail: desc}
			break
		}
		i.cur = g
		g.resume <- true
		<-i.yielded
	}
	// tear down
	for _, g := range i.gs {
		if !g.done {
			g.resume <- false
		}
	}
	i.wg.Wait()
}

// ---------------------------------------------------------------- channels

type sendWaiter struct {
	g    *goroutine
	v    value
	msg  int
	done bool
}

type recvWaiter struct {
	g *goroutine
}

type channel struct {
	buf    []value
	ids    []int // message numbers of buf
	nsend  int   // next message number
	cap    int
	closed bool
	sendq  []*sendWaiter
	recvq  []*recvWaiter
}

func (i *interpreter) newChannel(c int) *channel { return &channel{cap: c} }

func (c *channel) length() int {
	if c == nil {
		return 0
	}
	return len(c.buf)
}

func (c *channel) capacity() int {
	if c == nil {
		return 0
	}
	return c.cap
}

func (c *channel) canRecv() bool {
	return c != nil && (len(c.buf) > 0 || len(c.sendq) > 0 || c.closed)
}

func (c *channel) canSend() bool {
	return c != nil && (c.closed || len(c.buf) < c.cap || len(c.recvq) > 0)
}

// doRecv performs a receive that is known not to block.
func (c *channel) doRecv() (value, bool) {
	v, ok, _ := c.doRecvMsg()
	return v, ok
}

func (c *channel) doRecvMsg() (value, bool, int) {
	if len(c.buf) > 0 {
		v := c.buf[0]
		id := c.ids[0]
		c.buf = c.buf[1:]
		c.ids = c.ids[1:]
		if len(c.sendq) > 0 {
			s := c.sendq[0]
			c.sendq = c.sendq[1:]
			c.buf = append(c.buf, s.v)
			c.ids = append(c.ids, s.msg)
			s.done = true
		}
		return v, true, id
	}
	if len(c.sendq) > 0 {
		s := c.sendq[0]
		c.sendq = c.sendq[1:]
		s.done = true
		return s.v, true, s.msg
	}
	return nil, false, -1 // closed
}

// doSend performs a send that is known not to block.
func (c *channel) doSend(v value) int {
	if c.closed {
		panic(targetPanic{iface{t: types.Typ[types.String], v: "send on closed channel"}})
	}
	id := c.nsend
	c.nsend++
	if len(c.recvq) > 0 {
		r := c.recvq[0]
		c.recvq = c.recvq[1:]
		r.g.recvVal, r.g.recvOK, r.g.wake, r.g.recvMsg = v, true, true, id
		return id
	}
	c.buf = append(c.buf, v)
	c.ids = append(c.ids, id)
	return id
}

func (i *interpreter) chanSend(fr *frame, c *channel, v value) {
	g := fr.g
	i.syncPoint(fr, "chan send")
	if c == nil {
		i.park(g, "send on nil channel", func() bool { return false })
	}
	if c.canSend() {
		id := c.doSend(v)
		i.traceSync(fr, evSend, c, id, 0)
		return
	}
	w := &sendWaiter{g: g, v: v, msg: c.nsend}
	c.nsend++
	c.sendq = append(c.sendq, w)
	i.park(g, "chan send", func() bool { return w.done || c.closed })
	if !w.done {
		panic(targetPanic{iface{t: types.Typ[types.String], v: "send on closed channel"}})
	}
	i.traceSync(fr, evSend, c, w.msg, 0)
}

func (i *interpreter) chanRecv(fr *frame, c *channel) (value, bool) {
	g := fr.g
	i.syncPoint(fr, "chan recv")
	if c == nil {
		i.park(g, "receive from nil channel", func() bool { return false })
	}
	if c.canRecv() {
		v, ok, id := c.doRecvMsg()
		if ok {
			i.traceSync(fr, evRecv, c, id, 0)
		} else {
			i.traceSync(fr, evRecvZero, c, 0, 0)
		}
		return v, ok
	}
	w := &recvWaiter{g: g}
	g.wake = false
	c.recvq = append(c.recvq, w)
	i.park(g, "chan receive", func() bool { return g.wake || c.closed })
	if g.wake {
		g.wake = false
		i.traceSync(fr, evRecv, c, g.recvMsg, 0)
		return g.recvVal, g.recvOK
	}
	i.traceSync(fr, evRecvZero, c, 0, 0)
	// closed while waiting: remove ourselves
	for n, r := range c.recvq {
		if r == w {
			c.recvq = append(c.recvq[:n], c.recvq[n+1:]...)
			break
		}
	}
	return nil, false
}

func (i *interpreter) chanClose(fr *frame, c *channel) {
	i.syncPoint(fr, "chan close")
	if c == nil {
		panic(targetPanic{iface{t: types.Typ[types.String], v: "close of nil channel"}})
	}
	if c.closed {
		panic(targetPanic{iface{t: types.Typ[types.String], v: "close of closed channel"}})
	}
	c.closed = true
	i.traceSync(fr, evClose, c, 0, 0)
}

// doSelect implements ssa.Select. With several ready cases the choice is
// a decision point (Go picks pseudo-randomly, so every one is possible).
func (i *interpreter) doSelect(fr *frame, instr *ssa.Select) value {
	g := fr.g
	i.syncPoint(fr, "select")
	type scase struct {
		c    *channel
		send bool
		v    value
	}
	cases := make([]scase, len(instr.States))
	for n, st := range instr.States {
		cases[n].c, _ = fr.get(st.Chan).(*channel)
		if st.Dir == types.SendOnly {
			cases[n].send = true
			cases[n].v = fr.get(st.Send)
		}
	}
	readyIdx := func() []int {
		var r []int
		for n, sc := range cases {
			if sc.c == nil {
				continue
			}
			if sc.send && sc.c.canSend() || !sc.send && sc.c.canRecv() {
				r = append(r, n)
			}
		}
		return r
	}
	chosen := -1
	for {
		r := readyIdx()
		if len(r) > 0 {
			if i.cfg.SelectFork {
				chosen = r[i.choose(len(r))]
			} else {
				chosen = r[0]
			}
			break
		}
		if !instr.Blocking {
			break
		}
		// Rendezvous between two parked selects is not modelled.
		i.park(g, "select", func() bool { return len(readyIdx()) > 0 })
	}
	var recvV value
	recvOK := false
	if chosen >= 0 {
		sc := cases[chosen]
		if sc.send {
			id := sc.c.doSend(sc.v)
			i.traceSync(fr, evSend, sc.c, id, 0)
		} else {
			var id int
			recvV, recvOK, id = sc.c.doRecvMsg()
			if recvOK {
				i.traceSync(fr, evRecv, sc.c, id, 0)
			} else {
				i.traceSync(fr, evRecvZero, sc.c, 0, 0)
			}
		}
	}
	r := tuple{chosen, recvOK}
	for n, st := range instr.States {
		if st.Dir == types.RecvOnly {
			var v value
			if n == chosen && recvOK {
				v = recvV
			} else {
				v = zero(st.Chan.Type().Underlying().(*types.Chan).Elem())
			}
			r = append(r, v)
		}
	}
	return r
}

// ---------------------------------------------------------------- sync

type syncState struct {
	locked  bool
	owner   *goroutine
	readers int
	wgCount int64
	onceDone bool
}

type condState struct {
	waiters []*goroutine
}

func (i *interpreter) syncOf(p *value) *syncState {
	s := i.syncTab[p]
	if s == nil {
		s = &syncState{}
		i.syncTab[p] = s
	}
	return s
}

func (i *interpreter) mutexLock(fr *frame, p *value) {
	if p == nil {
		panic(runtimeError("invalid memory address or nil pointer dereference"))
	}
	i.syncPoint(fr, "lock")
	s := i.syncOf(p)
	if s.locked || s.readers > 0 {
		i.park(fr.g, "mutex lock in "+fr.callerName(), func() bool { return !s.locked && s.readers == 0 })
	}
	s.locked = true
	s.owner = fr.g
	i.traceSync(fr, evAcq, p, 0, 0)
}

func (i *interpreter) mutexUnlock(fr *frame, p *value) {
	if p == nil {
		panic(runtimeError("invalid memory address or nil pointer dereference"))
	}
	s := i.syncOf(p)
	if !s.locked {
		panic(targetPanic{iface{t: types.Typ[types.String], v: "sync: unlock of unlocked mutex"}})
	}
	i.traceSync(fr, evRel, p, 0, 0)
	s.locked = false
	s.owner = nil
	i.syncPoint(fr, "unlock")
}

func (i *interpreter) rLock(fr *frame, p *value) {
	i.syncPoint(fr, "rlock")
	s := i.syncOf(p)
	if s.locked {
		i.park(fr.g, "rwmutex rlock", func() bool { return !s.locked })
	}
	s.readers++
	i.traceSync(fr, evRAcq, p, 0, 0)
}

func (i *interpreter) rUnlock(fr *frame, p *value) {
	s := i.syncOf(p)
	if s.readers <= 0 {
		panic(targetPanic{iface{t: types.Typ[types.String], v: "sync: RUnlock of unlocked RWMutex"}})
	}
	i.traceSync(fr, evRRel, p, 0, 0)
	s.readers--
	i.syncPoint(fr, "runlock")
}

func (fr *frame) callerName() string {
	if fr.caller != nil && fr.caller.fn != nil {
		return fr.caller.fn.String()
	}
	return "?"
}

func (i *interpreter) condOf(p *value) *condState {
	s := i.condTab[p]
	if s == nil {
		s = &condState{}
		i.condTab[p] = s
	}
	return s
}

// syncPoint is where mode X may pre-empt the running goroutine.
func (i *interpreter) syncPoint(fr *frame, what string) {
	if i.cfg.Preempt <= 0 || fr == nil || fr.g == nil {
		return
	}
	if i.ps.preempts >= i.cfg.Preempt {
		return
	}
	// candidates: other runnable goroutines
	var cands []*goroutine
	for _, g := range i.gs {
		if g != fr.g && !g.idleOnly && g.runnable() {
			cands = append(cands, g)
		}
	}
	if len(cands) == 0 {
		return
	}
	sort.Slice(cands, func(a, b int) bool { return cands[a].id < cands[b].id })
	k := i.choose(len(cands) + 1)
	if k == 0 {
		return
	}
	i.ps.preempts++
	target := cands[k-1]
	// run target next: park self as runnable-but-after-target
	i.forceNext = target
	i.park(fr.g, "preempted at "+what, func() bool { return true })
}
