package interp

// Symbolic scalars and the decision points (branch, concretize, assume,
// assert) that connect the executor to the SMT solver.

import (
	"fmt"
	"go/token"
	"go/types"

	"vx/smt"
)

// sv is a symbolic scalar: a term plus the Go basic kind it stands for.
// Concrete values never become sv; an sv whose term folds to a constant is
// turned back into the native value (see fromTerm).
type sv struct {
	t *smt.Term
	k types.BasicKind
}

func kindWidth(k types.BasicKind) int {
	switch k {
	case types.Bool, types.UntypedBool:
		return 0
	case types.Int8, types.Uint8:
		return 8
	case types.Int16, types.Uint16:
		return 16
	case types.Int32, types.Uint32:
		return 32
	case types.Int, types.Int64, types.Uint, types.Uint64, types.Uintptr, types.UntypedInt:
		return 64
	}
	panic(fmt.Sprintf("kindWidth: %v", k))
}

func kindSigned(k types.BasicKind) bool {
	switch k {
	case types.Int, types.Int8, types.Int16, types.Int32, types.Int64, types.UntypedInt:
		return true
	}
	return false
}

func kindOf(v value) (types.BasicKind, bool) {
	switch v := v.(type) {
	case sv:
		return v.k, true
	case bool:
		return types.Bool, true
	case int:
		return types.Int, true
	case int8:
		return types.Int8, true
	case int16:
		return types.Int16, true
	case int32:
		return types.Int32, true
	case int64:
		return types.Int64, true
	case uint:
		return types.Uint, true
	case uint8:
		return types.Uint8, true
	case uint16:
		return types.Uint16, true
	case uint32:
		return types.Uint32, true
	case uint64:
		return types.Uint64, true
	case uintptr:
		return types.Uintptr, true
	}
	return 0, false
}

func isSym(v value) bool { _, ok := v.(sv); return ok }

// toTerm converts a scalar value to a term.
func (i *interpreter) toTerm(v value) *smt.Term {
	switch v := v.(type) {
	case sv:
		return v.t
	case bool:
		return i.ctx.Bool(v)
	}
	k, ok := kindOf(v)
	if !ok {
		i.unsupported(fmt.Sprintf("toTerm of %T", v))
	}
	return i.ctx.Const(kindWidth(k), uint64(asInt64(v)))
}

// fromTerm wraps a term as a value of kind k, folding constants back to
// native Go values.
func fromTerm(t *smt.Term, k types.BasicKind) value {
	if t.IsConst() {
		return constOfKind(t.Val, k)
	}
	return sv{t, k}
}

func constOfKind(v uint64, k types.BasicKind) value {
	switch k {
	case types.Bool, types.UntypedBool:
		return v != 0
	case types.Int, types.UntypedInt:
		return int(v)
	case types.Int8:
		return int8(v)
	case types.Int16:
		return int16(v)
	case types.Int32:
		return int32(v)
	case types.Int64:
		return int64(v)
	case types.Uint:
		return uint(v)
	case types.Uint8:
		return uint8(v)
	case types.Uint16:
		return uint16(v)
	case types.Uint32:
		return uint32(v)
	case types.Uint64:
		return uint64(v)
	case types.Uintptr:
		return uintptr(v)
	}
	panic(fmt.Sprintf("constOfKind: %v", k))
}

// symBinop implements binop when at least one operand is symbolic.
func symBinop(fr *frame, op token.Token, x, y value) value {
	i := fr.i
	c := i.ctx
	kx, okx := kindOf(x)
	ky, oky := kindOf(y)
	if !okx || !oky {
		i.unsupported(fmt.Sprintf("symbolic binop %s on %T, %T", op, x, y))
	}
	a, b := i.toTerm(x), i.toTerm(y)
	if kx == types.Bool {
		switch op {
		case token.EQL:
			return fromTerm(c.Eq(a, b), types.Bool)
		case token.NEQ:
			return fromTerm(c.Not(c.Eq(a, b)), types.Bool)
		case token.AND: // not produced by SSA for bools, but harmless
			return fromTerm(c.And(a, b), types.Bool)
		case token.OR:
			return fromTerm(c.Or(a, b), types.Bool)
		}
		i.unsupported("symbolic bool binop " + op.String())
	}
	signed := kindSigned(kx)
	w := kindWidth(kx)
	switch op {
	case token.SHL, token.SHR:
		// shift count may have a different type
		if kindSigned(ky) {
			if i.branch(fr, c.Slt(b, c.Const(b.W, 0))) {
				panic(runtimeError("negative shift amount"))
			}
		}
		var cnt *smt.Term
		if b.IsConst() {
			v := b.Val
			if v > uint64(w) {
				v = uint64(w)
			}
			cnt = c.Const(w, v)
		} else if b.W == w {
			cnt = b
		} else if b.W < w {
			cnt = c.Zext(b, w)
		} else {
			big := c.Not(c.Ult(b, c.Const(b.W, uint64(w))))
			cnt = c.Ite(big, c.Const(w, uint64(w)), c.Extract(b, w-1, 0))
		}
		var r *smt.Term
		if op == token.SHL {
			r = c.Bin(smt.OShl, a, cnt)
		} else if signed {
			r = c.Bin(smt.OAshr, a, cnt)
		} else {
			r = c.Bin(smt.OLshr, a, cnt)
		}
		return fromTerm(r, kx)
	}
	if a.W != b.W {
		i.unsupported(fmt.Sprintf("symbolic binop %s width mismatch %d/%d", op, a.W, b.W))
	}
	switch op {
	case token.ADD:
		return fromTerm(c.Bin(smt.OAdd, a, b), kx)
	case token.SUB:
		return fromTerm(c.Bin(smt.OSub, a, b), kx)
	case token.MUL:
		return fromTerm(c.Bin(smt.OMul, a, b), kx)
	case token.QUO, token.REM:
		if i.branch(fr, c.Eq(b, c.Const(w, 0))) {
			panic(runtimeError("integer divide by zero"))
		}
		var o smt.Op
		switch {
		case op == token.QUO && signed:
			o = smt.OSdiv
		case op == token.QUO:
			o = smt.OUdiv
		case signed:
			o = smt.OSrem
		default:
			o = smt.OUrem
		}
		return fromTerm(c.Bin(o, a, b), kx)
	case token.AND:
		return fromTerm(c.Bin(smt.OBvAnd, a, b), kx)
	case token.OR:
		return fromTerm(c.Bin(smt.OBvOr, a, b), kx)
	case token.XOR:
		return fromTerm(c.Bin(smt.OBvXor, a, b), kx)
	case token.AND_NOT:
		return fromTerm(c.Bin(smt.OBvAnd, a, c.BvNot(b)), kx)
	case token.EQL:
		return fromTerm(c.Eq(a, b), types.Bool)
	case token.NEQ:
		return fromTerm(c.Not(c.Eq(a, b)), types.Bool)
	case token.LSS:
		if signed {
			return fromTerm(c.Slt(a, b), types.Bool)
		}
		return fromTerm(c.Ult(a, b), types.Bool)
	case token.LEQ:
		if signed {
			return fromTerm(c.Sle(a, b), types.Bool)
		}
		return fromTerm(c.Ule(a, b), types.Bool)
	case token.GTR:
		if signed {
			return fromTerm(c.Slt(b, a), types.Bool)
		}
		return fromTerm(c.Ult(b, a), types.Bool)
	case token.GEQ:
		if signed {
			return fromTerm(c.Sle(b, a), types.Bool)
		}
		return fromTerm(c.Ule(b, a), types.Bool)
	}
	i.unsupported("symbolic binop " + op.String())
	return nil
}

func symUnop(fr *frame, op token.Token, x sv) value {
	c := fr.i.ctx
	switch op {
	case token.NOT:
		return fromTerm(c.Not(x.t), types.Bool)
	case token.SUB:
		return fromTerm(c.BvNeg(x.t), x.k)
	case token.XOR:
		return fromTerm(c.BvNot(x.t), x.k)
	}
	fr.i.unsupported("symbolic unop " + op.String())
	return nil
}

// symConv converts a symbolic integer to another integer kind.
func symConv(fr *frame, dst types.Type, x sv) value {
	b, ok := dst.Underlying().(*types.Basic)
	if !ok || b.Info()&types.IsInteger == 0 {
		if ok && b.Kind() == types.Bool {
			return x
		}
		fr.i.unsupported(fmt.Sprintf("conversion of symbolic %v to %v", x.k, dst))
	}
	k := b.Kind()
	w := kindWidth(k)
	c := fr.i.ctx
	var t *smt.Term
	switch {
	case w == x.t.W:
		t = x.t
	case w < x.t.W:
		t = c.Extract(x.t, w-1, 0)
	case kindSigned(x.k):
		t = c.Sext(x.t, w)
	default:
		t = c.Zext(x.t, w)
	}
	return fromTerm(t, k)
}

// eqv is equals() generalised to values that may contain symbolic scalars;
// it returns a bool or a symbolic bool.
func eqv(fr *frame, t types.Type, x, y value) value {
	_, sx := x.(sv)
	_, sy := y.(sv)
	if sx || sy {
		return symBinop(fr, token.EQL, x, y)
	}
	switch x := x.(type) {
	case structure:
		y := y.(structure)
		st := t.Underlying().(*types.Struct)
		var acc value = true
		for n := 0; n < st.NumFields(); n++ {
			acc = andv(fr, acc, eqv(fr, st.Field(n).Type(), x[n], y[n]))
		}
		return acc
	case array:
		y := y.(array)
		et := t.Underlying().(*types.Array).Elem()
		var acc value = true
		for n := range x {
			acc = andv(fr, acc, eqv(fr, et, x[n], y[n]))
		}
		return acc
	case iface:
		y := y.(iface)
		if !sameType(x.t, y.t) {
			return false
		}
		if x.t == nil {
			return true
		}
		return eqv(fr, x.t, x.v, y.v)
	}
	return equals(t, x, y)
}

func andv(fr *frame, a, b value) value {
	if ab, ok := a.(bool); ok {
		if !ab {
			return false
		}
		return b
	}
	if bb, ok := b.(bool); ok {
		if !bb {
			return false
		}
		return a
	}
	c := fr.i.ctx
	return fromTerm(c.And(a.(sv).t, b.(sv).t), types.Bool)
}

func notv(fr *frame, a value) value {
	if ab, ok := a.(bool); ok {
		return !ab
	}
	return fromTerm(fr.i.ctx.Not(a.(sv).t), types.Bool)
}

// ---------------------------------------------------------------- decisions

// Decision is one entry of a path's decision vector.
type Decision struct {
	K byte   // 'b' branch, 'c' concretized value, 'k' harness/engine choice
	V uint64 // branch: 1 = cond true; 'c': the value; 'k': the index chosen
}

// PathSpec is a path prefix to (re-)execute together with a model that
// satisfies every decision of the prefix.
type PathSpec struct {
	Dec   []Decision
	Model smt.Model
}

func (i *interpreter) evalModel(t *smt.Term) uint64 {
	return smt.NewEvaluator(i.model).Eval(t)
}

func (i *interpreter) assertPC(t *smt.Term) {
	if t.IsTrue() {
		return
	}
	i.sol.Assert(t)
	i.ps.pc = append(i.ps.pc, t)
	i.learn(t, true)
}

// learn records what the path condition says syntactically about t and
// its sub-terms, so that a later branch on the same (hash-consed) term is
// decided without the solver.
func (i *interpreter) learn(t *smt.Term, v bool) {
	if t.W != 0 || t.IsConst() {
		return
	}
	if i.ps.facts == nil {
		i.ps.facts = map[*smt.Term]bool{}
	}
	if _, ok := i.ps.facts[t]; ok {
		return
	}
	i.ps.facts[t] = v
	switch t.Op {
	case smt.ONot:
		i.learn(t.Args[0], !v)
	case smt.OAnd:
		if v {
			i.learn(t.Args[0], true)
			i.learn(t.Args[1], true)
		}
	case smt.OOr:
		if !v {
			i.learn(t.Args[0], false)
			i.learn(t.Args[1], false)
		}
	case smt.OUlt, smt.OSlt:
		if v { // a < b: a != b, not b < a
			c := i.ctx
			i.ps.facts[c.Eq(t.Args[0], t.Args[1])] = false
			if t.Op == smt.OUlt {
				i.ps.facts[c.Ult(t.Args[1], t.Args[0])] = false
			} else {
				i.ps.facts[c.Slt(t.Args[1], t.Args[0])] = false
			}
		}
	case smt.OEq:
		if v && t.Args[0].W > 0 {
			c := i.ctx
			i.ps.facts[c.Ult(t.Args[0], t.Args[1])] = false
			i.ps.facts[c.Ult(t.Args[1], t.Args[0])] = false
		}
	}
}

// known3 evaluates a boolean term from the learned facts: 1 true, 0 false,
// -1 unknown.
func (i *interpreter) known3(t *smt.Term, depth int) int {
	if t.IsConst() {
		return int(t.Val)
	}
	if v, ok := i.ps.facts[t]; ok {
		if v {
			return 1
		}
		return 0
	}
	if depth <= 0 {
		return -1
	}
	switch t.Op {
	case smt.ONot:
		if r := i.known3(t.Args[0], depth-1); r >= 0 {
			return 1 - r
		}
	case smt.OAnd:
		a, b := i.known3(t.Args[0], depth-1), i.known3(t.Args[1], depth-1)
		if a == 0 || b == 0 {
			return 0
		}
		if a == 1 && b == 1 {
			return 1
		}
	case smt.OOr:
		a, b := i.known3(t.Args[0], depth-1), i.known3(t.Args[1], depth-1)
		if a == 1 || b == 1 {
			return 1
		}
		if a == 0 && b == 0 {
			return 0
		}
	case smt.OIte:
		if t.W == 0 {
			switch i.known3(t.Args[0], depth-1) {
			case 1:
				return i.known3(t.Args[1], depth-1)
			case 0:
				return i.known3(t.Args[2], depth-1)
			}
		}
	}
	return -1
}

func (i *interpreter) pushDecision(d Decision) {
	i.ps.trace = append(i.ps.trace, d)
	if i.ps.pos >= len(i.ps.spec.Dec) && len(i.ps.trace) > len(i.ps.spec.Dec) {
		i.ps.edges++ // a decision made on this path for the first time
	}
	if len(i.ps.trace) > i.cfg.MaxDecisions {
		i.inconclusive("decision budget exceeded (unwinding bound)")
	}
}

func (i *interpreter) altSpec(d Decision, m smt.Model) {
	i.ps.edges++
	dec := make([]Decision, len(i.ps.trace)+1)
	copy(dec, i.ps.trace)
	dec[len(dec)-1] = d
	i.ps.alts = append(i.ps.alts, &PathSpec{Dec: dec, Model: m})
}

// replay returns the next prescribed decision, if any.
func (i *interpreter) replay(kind byte) (Decision, bool) {
	ps := i.ps
	if ps.pos < len(ps.spec.Dec) {
		d := ps.spec.Dec[ps.pos]
		ps.pos++
		if d.K != kind {
			i.inconclusive(fmt.Sprintf("engine nondeterminism: decision %d is %c, expected %c", ps.pos-1, d.K, kind))
		}
		return d, true
	}
	return Decision{}, false
}

// branch decides a symbolic condition, forking the other side if feasible.
func (i *interpreter) branch(fr *frame, t *smt.Term) bool {
	if t.IsConst() {
		return t.Val != 0
	}
	c := i.ctx
	if k := i.known3(t, 6); k >= 0 {
		// implied syntactically by the path condition: no decision, no fork
		// (the same facts are learned when a prefix is replayed, so this is
		// deterministic across re-executions)
		i.ps.factHits++
		return k == 1
	}
	if d, ok := i.replay('b'); ok {
		taken := d.V != 0
		if (i.evalModel(t) != 0) != taken {
			i.inconclusive("engine nondeterminism: model disagrees with replayed branch")
		}
		if taken {
			i.assertPC(t)
		} else {
			i.assertPC(c.Not(t))
		}
		i.pushDecision(d)
		return taken
	}
	mv := i.evalModel(t) != 0
	alt := t
	if mv {
		alt = c.Not(t)
	}
	res, m := i.sol.Check(c, alt)
	i.ps.transitions++
	switch res {
	case smt.Sat:
		av := uint64(1)
		if mv {
			av = 0
		}
		i.altSpec(Decision{'b', av}, m)
	case smt.Unknown:
		i.noteInconclusive("solver returned unknown at a branch" + i.where(fr))
	}
	if mv {
		i.assertPC(t)
		i.pushDecision(Decision{'b', 1})
	} else {
		i.assertPC(c.Not(t))
		i.pushDecision(Decision{'b', 0})
	}
	return mv
}

// concretize picks a concrete value for t, forking one path per other
// feasible value (bounded by cfg.MaxConcretize).
func (i *interpreter) concretize(fr *frame, t *smt.Term) uint64 {
	if t.IsConst() {
		return t.Val
	}
	c := i.ctx
	if d, ok := i.replay('c'); ok {
		if i.evalModel(t) != d.V {
			i.inconclusive("engine nondeterminism: model disagrees with replayed value")
		}
		i.assertPC(c.Eq(t, c.Const(t.W, d.V)))
		i.pushDecision(d)
		return d.V
	}
	v0 := i.evalModel(t)
	excl := []*smt.Term{c.Not(c.Eq(t, c.Const(t.W, v0)))}
	for n := 0; ; n++ {
		res, m := i.sol.Check(c, excl...)
		i.ps.transitions++
		if res == smt.Unsat {
			break
		}
		if res == smt.Unknown {
			i.noteInconclusive("solver returned unknown while concretizing" + i.where(fr))
			break
		}
		if n >= i.cfg.MaxConcretize {
			i.noteInconclusive(fmt.Sprintf("more than %d feasible values for a symbolic size/index%s", i.cfg.MaxConcretize, i.where(fr)))
			break
		}
		vi := smt.NewEvaluator(m).Eval(t)
		i.altSpec(Decision{'c', vi}, m)
		excl = append(excl, c.Not(c.Eq(t, c.Const(t.W, vi))))
	}
	i.assertPC(c.Eq(t, c.Const(t.W, v0)))
	i.pushDecision(Decision{'c', v0})
	return v0
}

// choose forks n ways without consulting the solver (harness choices,
// select with several ready cases, map iteration order, ...).
func (i *interpreter) choose(n int) int { return i.chooseK('k', n) }

// chooseK: kind 'h' = harness-level vxChoose (replayed natively), 'k' =
// executor-internal choice (select, map order, pre-emption).
func (i *interpreter) chooseK(kind byte, n int) int {
	if n <= 1 {
		return 0
	}
	if !i.cfg.SymbolicChoices {
		if d, ok := i.replay(kind); ok {
			i.pushDecision(d)
			return int(d.V)
		}
		for k := 1; k < n; k++ {
			i.altSpec(Decision{kind, uint64(k)}, i.model)
		}
		i.pushDecision(Decision{kind, 0})
		return 0
	}
	// The choice (harness alternative, fault/crash index, schedule, select
	// case, map order) is a symbolic variable 0 <= s < n; the solver
	// enumerates its feasible values.
	c := i.ctx
	s := c.NewSym(8, fmt.Sprintf("choice#%d", len(c.Syms)))
	i.assertPC(c.Ult(s, c.Const(8, uint64(n))))
	if d, ok := i.replay(kind); ok {
		i.assertPC(c.Eq(s, c.Const(8, d.V)))
		i.pushDecision(d)
		return int(d.V)
	}
	v0 := i.evalModel(s)
	if v0 >= uint64(n) {
		v0 = 0
	}
	excl := []*smt.Term{c.Not(c.Eq(s, c.Const(8, v0)))}
	for {
		res, m := i.sol.Check(c, excl...)
		i.ps.transitions++
		if res == smt.Unsat {
			break
		}
		if res == smt.Unknown {
			i.noteInconclusive("solver returned unknown while enumerating a choice")
			break
		}
		vi := smt.NewEvaluator(m).Eval(s)
		i.altSpec(Decision{kind, vi}, m)
		excl = append(excl, c.Not(c.Eq(s, c.Const(8, vi))))
	}
	i.assertPC(c.Eq(s, c.Const(8, v0)))
	i.pushDecision(Decision{kind, v0})
	return int(v0)
}

// assume constrains the path; an infeasible assumption ends it silently.
func (i *interpreter) assume(fr *frame, t *smt.Term) {
	if t.IsTrue() {
		return
	}
	if t.IsFalse() {
		i.endPath(outcome{kind: oDiscard})
	}
	if i.evalModel(t) == 0 {
		res, m := i.sol.Check(i.ctx, t)
		i.ps.transitions++
		switch res {
		case smt.Unsat:
			i.endPath(outcome{kind: oDiscard})
		case smt.Unknown:
			i.noteInconclusive("solver returned unknown at an assume" + i.where(fr))
			i.endPath(outcome{kind: oDiscard})
		}
		i.model = m
	}
	i.assertPC(t)
}

func (i *interpreter) where(fr *frame) string {
	if fr == nil {
		return ""
	}
	return " in " + fr.fn.String()
}

// concInt returns a concrete int64 for an integer value, concretizing a
// symbolic one.
func (i *interpreter) concInt(fr *frame, v value) int64 {
	if s, ok := v.(sv); ok {
		u := i.concretize(fr, s.t)
		if kindSigned(s.k) {
			return asInt64(constOfKind(u, s.k))
		}
		return int64(u)
	}
	return asInt64(v)
}

// concValue concretizes a symbolic scalar into its native Go value.
func (i *interpreter) concValue(fr *frame, v value) value {
	if s, ok := v.(sv); ok {
		return constOfKind(i.concretize(fr, s.t), s.k)
	}
	return v
}

func (i *interpreter) concKey(fr *frame, v value) value {
	switch x := v.(type) {
	case sv:
		return i.concValue(fr, x)
	case structure:
		for _, f := range x {
			if isSym(f) {
				i.unsupported("symbolic field in a map key")
			}
		}
	}
	return v
}
