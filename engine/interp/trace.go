package interp

// Event traces and the SMT order encoding used for data-race prediction
// (property C17).
//
// While a path executes (Config.Trace), the executor records, per
// goroutine, the synchronisation events it performs (lock/unlock, channel
// send/receive/close with their matching, cond wait/signal, atomics, go,
// exit, WaitGroup) and the plain memory accesses made by the code under
// verification. Accesses between two consecutive synchronisation events
// of a goroutine form a block.
//
// After the path, every pair of blocks of different goroutines that touch
// a common cell (at least one write, not both atomic) is a race
// candidate. For each candidate z3 is asked for integer timestamps of all
// events such that
//   - program order and fork/exit-join order hold,
//   - every receive comes after its send, a receive of the zero value
//     after the close, the k-th receive before the (k+cap)-th send,
//   - a cond wake-up comes after its signal,
//   - atomics on one cell keep their observed order,
//   - critical sections of one mutex do not overlap (either order!),
//   - every shared read outside the candidate blocks still reads from the
//     write it read from in the recorded run (so the re-ordered run follows
//     the same control flow),
// and the two candidate blocks get the SAME timestamp, i.e. neither is
// ordered before the other. unsat: no admissible re-ordering of this run
// makes the two accesses concurrent. sat: a schedule witness.

import (
	"fmt"
	"os"
	"go/token"
	"sort"
	"strings"

	"golang.org/x/tools/go/ssa"

	"vx/smt"
)

type evKind uint8

const (
	evAcq evKind = iota
	evRel
	evRAcq
	evRRel
	evSend
	evRecv
	evRecvZero
	evClose
	evSignal
	evWake
	evAtomic
	evGo
	evStart
	evExit
	evJoin   // WaitGroup.Wait returned / Once observed done
	evWgDone // WaitGroup.Done / Once body finished
)

type traceEvent struct {
	g     int
	kind  evKind
	obj   interface{} // mutex / channel / cond / cell
	msg   int         // channel message number (send k matches recv k)
	peer  int         // evGo: child goroutine id; evWake: index of the signal event
	where string
}

type access struct {
	cell   *value
	write  bool
	atomic bool
	where  string
	pos    token.Pos
}

type traceBlock struct {
	g        int
	after    int // index (in trace.events) of the sync event that precedes it, -1 if none
	accesses []access
	held     []interface{} // mutexes held (exclusively) while the block executes
}

type trace struct {
	events []traceEvent
	blocks []*traceBlock
	cur    map[int]*traceBlock // current block per goroutine
	last   map[int]int         // last sync event index per goroutine
	held   map[int]map[interface{}]bool
	naccs  int
	over   bool
}

func newTrace() *trace {
	return &trace{cur: map[int]*traceBlock{}, last: map[int]int{}, held: map[int]map[interface{}]bool{}}
}

func (i *interpreter) tracing() bool { return i.tr != nil && !i.tr.over }

func (i *interpreter) traceSync(fr *frame, kind evKind, obj interface{}, msg, peer int) int {
	if !i.tracing() || fr == nil || fr.g == nil {
		return -1
	}
	t := i.tr
	g := fr.g.id
	w := ""
	if fr.fn != nil {
		w = fr.fn.String()
	}
	if fr.caller != nil && fr.caller.fn != nil {
		w = fr.caller.fn.String() + loc(fr.i.prog.Fset, fr.callpos)
	}
	switch kind {
	case evAcq:
		if t.held[g] == nil {
			t.held[g] = map[interface{}]bool{}
		}
		t.held[g][obj] = true
	case evRel:
		delete(t.held[g], obj)
	}
	t.events = append(t.events, traceEvent{g: g, kind: kind, obj: obj, msg: msg, peer: peer, where: w})
	idx := len(t.events) - 1
	t.last[g] = idx
	delete(t.cur, g)
	return idx
}

// traceWanted: plain accesses are recorded for the code under
// verification only (not the harness, not the standard library).
func (i *interpreter) traceWanted(fr *frame) bool {
	if !i.tracing() || fr == nil || fr.fn == nil || fr.g == nil {
		return false
	}
	fn := fr.fn
	for fn.Parent() != nil {
		fn = fn.Parent()
	}
	if fn.Pkg != i.cfg.Target {
		return false
	}
	i.cfg.mu.Lock()
	w, ok := i.cfg.traceFn[fn]
	if !ok {
		file := i.prog.Fset.Position(fn.Pos()).Filename
		w = !strings.Contains(file, "zz_vx_")
		i.cfg.traceFn[fn] = w
	}
	i.cfg.mu.Unlock()
	return w
}

func (i *interpreter) traceAccess(fr *frame, cell *value, write, atomic bool, pos token.Pos) {
	t := i.tr
	g := fr.g.id
	b := t.cur[g]
	if b == nil {
		after, ok := t.last[g]
		if !ok {
			after = -1
		}
		b = &traceBlock{g: g, after: after}
		for m := range t.held[g] {
			b.held = append(b.held, m)
		}
		t.cur[g] = b
		t.blocks = append(t.blocks, b)
	}
	b.accesses = append(b.accesses, access{cell: cell, write: write, atomic: atomic, pos: pos, where: fr.fn.String()})
	t.naccs++
	if t.naccs > i.cfg.MaxTraceAccesses {
		t.over = true
		i.noteInconclusive("trace too long for the race analysis")
	}
}

// traceCells records an access to every scalar cell under addr.
func (i *interpreter) traceCells(fr *frame, addr *value, write bool, pos token.Pos) {
	switch v := (*addr).(type) {
	case structure:
		for n := range v {
			i.traceCells(fr, &v[n], write, pos)
		}
	case array:
		for n := range v {
			i.traceCells(fr, &v[n], write, pos)
		}
	default:
		i.traceAccess(fr, addr, write, false, pos)
	}
}

// traceMap treats a map as one cell (identified by its header object).
func (i *interpreter) traceMap(fr *frame, m value, write bool, pos token.Pos) {
	var key *value
	switch mm := m.(type) {
	case *omap:
		if mm == nil {
			return
		}
		key = &mm.cell
	case *hashmap:
		if mm == nil {
			return
		}
		key = &mm.cell
	default:
		return
	}
	i.traceAccess(fr, key, write, false, pos)
}

// ---------------------------------------------------------------- analysis

type raceReport struct {
	a, b     access
	ga, gb   int
	witness  string
	queries  int
	pairs    int
	filtered int
}

// analyseRaces runs the order encoding over the finished trace. It returns
// the first predicted race, if any, and statistics.
func (i *interpreter) analyseRaces() (*raceReport, int, int) {
	t := i.tr
	if t == nil || t.over {
		return nil, 0, 0
	}
	ev := t.events
	// --- per goroutine event order
	perG := map[int][]int{}
	for n, e := range ev {
		perG[e.g] = append(perG[e.g], n)
	}
	// --- "must" happens-before edges (everything except lock order)
	type edge struct{ a, b int }
	var must []edge
	for _, idxs := range perG {
		for k := 1; k < len(idxs); k++ {
			must = append(must, edge{idxs[k-1], idxs[k]})
		}
	}
	startOf := map[int]int{}
	exitOf := map[int]int{}
	for n, e := range ev {
		switch e.kind {
		case evStart:
			startOf[e.g] = n
		case evExit:
			exitOf[e.g] = n
		}
	}
	sends := map[interface{}]map[int]int{}
	recvs := map[interface{}]map[int]int{}
	closes := map[interface{}]int{}
	var atomicsByCell = map[interface{}][]int{}
	wgDones := map[interface{}][]int{}
	for n, e := range ev {
		switch e.kind {
		case evGo:
			if s, ok := startOf[e.peer]; ok {
				must = append(must, edge{n, s})
			}
		case evSend:
			if sends[e.obj] == nil {
				sends[e.obj] = map[int]int{}
			}
			sends[e.obj][e.msg] = n
		case evRecv:
			if recvs[e.obj] == nil {
				recvs[e.obj] = map[int]int{}
			}
			recvs[e.obj][e.msg] = n
		case evClose:
			closes[e.obj] = n
		case evWake:
			if e.peer >= 0 {
				must = append(must, edge{e.peer, n})
			}
		case evAtomic:
			atomicsByCell[e.obj] = append(atomicsByCell[e.obj], n)
		case evWgDone:
			wgDones[e.obj] = append(wgDones[e.obj], n)
		case evJoin:
			for _, d := range wgDones[e.obj] {
				must = append(must, edge{d, n})
			}
		}
	}
	for ch, ss := range sends {
		c, _ := ch.(*channel)
		for m, s := range ss {
			if r, ok := recvs[ch][m]; ok {
				must = append(must, edge{s, r})
			}
			// the (m-cap)-th receive happens before the m-th send completes
			if c != nil && c.cap > 0 && m-c.cap >= 0 {
				if r, ok := recvs[ch][m-c.cap]; ok {
					must = append(must, edge{r, s})
				}
			}
		}
	}
	for n, e := range ev {
		if e.kind == evRecvZero {
			if c, ok := closes[e.obj]; ok {
				must = append(must, edge{c, n})
			}
			// all real messages were received before a zero receive
			for _, r := range recvs[e.obj] {
				if ev[r].g != e.g {
					must = append(must, edge{r, n})
				}
			}
		}
	}
	for _, idxs := range atomicsByCell {
		for k := 1; k < len(idxs); k++ {
			if ev[idxs[k-1]].g != ev[idxs[k]].g {
				must = append(must, edge{idxs[k-1], idxs[k]})
			}
		}
	}
	// --- reachability over must edges (events are few: bitset closure)
	n := len(ev)
	succ := make([][]int, n)
	for _, e := range must {
		succ[e.a] = append(succ[e.a], e.b)
	}
	// blocks: position = (after event, before next event of that goroutine)
	nextOf := func(b *traceBlock) int {
		idxs := perG[b.g]
		if b.after == -1 {
			if len(idxs) > 0 {
				return idxs[0]
			}
			return -1
		}
		for k, x := range idxs {
			if x == b.after && k+1 < len(idxs) {
				return idxs[k+1]
			}
		}
		return -1
	}
	reach := func(from int) []bool {
		seen := make([]bool, n)
		st := []int{from}
		for len(st) > 0 {
			x := st[len(st)-1]
			st = st[:len(st)-1]
			for _, y := range succ[x] {
				if !seen[y] {
					seen[y] = true
					st = append(st, y)
				}
			}
		}
		return seen
	}
	reachCache := map[int][]bool{}
	mustBefore := func(a, b *traceBlock) bool { // a must happen before b
		na := nextOf(a)
		if na == -1 || b.after == -1 {
			return false
		}
		if na == b.after {
			return true
		}
		r, ok := reachCache[na]
		if !ok {
			r = reach(na)
			reachCache[na] = r
		}
		return r[b.after]
	}
	// --- candidates: per cell, blocks touching it
	type use struct {
		b     *traceBlock
		write bool
		atom  bool
		acc   access
	}
	cells := map[*value][]use{}
	for _, b := range t.blocks {
		seen := map[*value]int{}
		for _, a := range b.accesses {
			if k, ok := seen[a.cell]; ok {
				u := &cells[a.cell][k]
				if a.write && !u.write {
					u.write = true
					u.acc = a
				}
				if !a.atomic {
					u.atom = false
				}
				continue
			}
			seen[a.cell] = len(cells[a.cell])
			cells[a.cell] = append(cells[a.cell], use{b: b, write: a.write, atom: a.atomic, acc: a})
		}
	}
	type cand struct {
		a, b   *traceBlock
		ua, ub access
		cells  map[*value]bool // every cell on which the two blocks conflict
	}
	var cands []*cand
	byPair := map[[2]*traceBlock]*cand{}
	shared := map[*value]bool{}
	for cell, us := range cells {
		gs := map[int]bool{}
		anyW := false
		for _, u := range us {
			gs[u.b.g] = true
			anyW = anyW || u.write
		}
		if len(gs) < 2 || !anyW {
			continue
		}
		shared[cell] = true
		for x := 0; x < len(us); x++ {
			for y := x + 1; y < len(us); y++ {
				ux, uy := us[x], us[y]
				if ux.b.g == uy.b.g || (!ux.write && !uy.write) || (ux.atom && uy.atom) {
					continue
				}
				key := [2]*traceBlock{ux.b, uy.b}
				if blockLess(uy.b, ux.b, t) {
					key = [2]*traceBlock{uy.b, ux.b}
				}
				c := byPair[key]
				if c == nil {
					c = &cand{a: ux.b, b: uy.b, ua: ux.acc, ub: uy.acc, cells: map[*value]bool{}}
					byPair[key] = c
					cands = append(cands, c)
				}
				c.cells[cell] = true
			}
		}
	}
	pairs := len(cands)
	// filter by must-HB
	var open []*cand
	for _, c := range cands {
		// lockset filter: both blocks run under a common mutex
		common := false
		for _, m := range c.a.held {
			for _, m2 := range c.b.held {
				if m == m2 {
					common = true
				}
			}
		}
		dbg := os.Getenv("VX_RACE_DEBUG") != "" && (strings.Contains(c.ua.where, "startFileLOCKED") || strings.Contains(c.ub.where, "startFileLOCKED"))
		if common {
			if dbg {
				fmt.Fprintf(os.Stderr, "cand %s / %s filtered by lockset\n", c.ua.where, c.ub.where)
			}
			continue
		}
		if mustBefore(c.a, c.b) || mustBefore(c.b, c.a) {
			if dbg {
				fmt.Fprintf(os.Stderr, "cand %s (g%d) / %s (g%d) filtered by must-HB %v %v\n", c.ua.where, c.a.g, c.ub.where, c.b.g, mustBefore(c.a, c.b), mustBefore(c.b, c.a))
			}
			continue
		}
		open = append(open, c)
	}
	if len(open) == 0 {
		return nil, pairs, 0
	}
	// --- SMT: base constraints once, one check per candidate
	var sb strings.Builder
	sb.WriteString("(push 1)\n")
	for k := range ev {
		fmt.Fprintf(&sb, "(declare-const e%d Int)\n", k)
	}
	blockIdx := map[*traceBlock]int{}
	for k, b := range t.blocks {
		blockIdx[b] = k
		fmt.Fprintf(&sb, "(declare-const b%d Int)\n", k)
		if b.after >= 0 {
			fmt.Fprintf(&sb, "(assert (< e%d b%d))\n", b.after, k)
		}
		if nx := nextOf(b); nx >= 0 {
			fmt.Fprintf(&sb, "(assert (< b%d e%d))\n", k, nx)
		}
	}
	for _, e := range must {
		fmt.Fprintf(&sb, "(assert (< e%d e%d))\n", e.a, e.b)
	}
	// lock regions
	type region struct{ acq, rel, g int; shared bool }
	regions := map[interface{}][]region{}
	openAcq := map[[2]interface{}]int{}
	for k, e := range ev {
		switch e.kind {
		case evAcq, evRAcq:
			openAcq[[2]interface{}{e.obj, e.g}] = k
		case evRel, evRRel:
			key := [2]interface{}{e.obj, e.g}
			if a, ok := openAcq[key]; ok {
				regions[e.obj] = append(regions[e.obj], region{a, k, e.g, e.kind == evRRel})
				delete(openAcq, key)
			}
		}
	}
	for key, a := range openAcq { // never released: holds until the end
		regions[key[0]] = append(regions[key[0]], region{a, -1, key[1].(int), false})
	}
	for _, rs := range regions {
		for x := 0; x < len(rs); x++ {
			for y := x + 1; y < len(rs); y++ {
				r1, r2 := rs[x], rs[y]
				if r1.g == r2.g || (r1.shared && r2.shared) {
					continue
				}
				switch {
				case r1.rel == -1 && r2.rel == -1:
					sb.WriteString("(assert false)\n")
				case r1.rel == -1:
					fmt.Fprintf(&sb, "(assert (< e%d e%d))\n", r2.rel, r1.acq)
				case r2.rel == -1:
					fmt.Fprintf(&sb, "(assert (< e%d e%d))\n", r1.rel, r2.acq)
				default:
					fmt.Fprintf(&sb, "(assert (or (< e%d e%d) (< e%d e%d)))\n", r1.rel, r2.acq, r2.rel, r1.acq)
				}
			}
		}
	}
	// read-from consistency on shared cells (block granularity), guarded by
	// a selector per reading block so that it can be dropped for the
	// candidate blocks
	type wr struct {
		b *traceBlock
	}
	writesOf := map[*value][]*traceBlock{}
	for cell := range shared {
		var ws []*traceBlock
		seen := map[*traceBlock]bool{}
		for _, u := range cells[cell] {
			if u.write && !seen[u.b] {
				seen[u.b] = true
				ws = append(ws, u.b)
			}
		}
		writesOf[cell] = ws
	}
	// one selector per read-from assertion, so that exactly the reads of the
	// racing cell in the two candidate blocks can be left unconstrained
	type rfSel struct {
		block int
		cell  *value
	}
	var rfSels []rfSel
	for cell := range shared {
		ws := writesOf[cell]
		for _, u := range cells[cell] {
			rb := u.b
			// does this block read the cell before writing it itself?
			readsFirst := false
			for _, a := range rb.accesses {
				if a.cell == cell {
					readsFirst = !a.write
					break
				}
			}
			if !readsFirst {
				continue
			}
			// the write it observed: the latest write block created before it
			var obs *traceBlock
			for _, w := range ws {
				if w != rb && blockIdx[w] < blockIdx[rb] {
					obs = w
				}
			}
			ri := blockIdx[rb]
			var parts []string
			if obs != nil {
				parts = append(parts, fmt.Sprintf("(< b%d b%d)", blockIdx[obs], ri))
			}
			for _, w := range ws {
				if w == rb || w == obs {
					continue
				}
				if obs != nil {
					parts = append(parts, fmt.Sprintf("(or (< b%d b%d) (< b%d b%d))", blockIdx[w], blockIdx[obs], ri, blockIdx[w]))
				} else {
					parts = append(parts, fmt.Sprintf("(< b%d b%d)", ri, blockIdx[w]))
				}
			}
			if len(parts) > 0 {
				k := len(rfSels)
				rfSels = append(rfSels, rfSel{ri, cell})
				fmt.Fprintf(&sb, "(declare-const rf%d Bool)\n(assert (=> rf%d (and %s)))\n", k, k, strings.Join(parts, " "))
			}
		}
	}
	base := sb.String()
	// dedicated solver round trips through the path's solver process
	sol := i.sol
	sol.Raw(base)
	defer sol.Raw("(pop 1)\n")
	queries := 0
	for _, c := range open {
		ia, ib := blockIdx[c.a], blockIdx[c.b]
		var q strings.Builder
		fmt.Fprintf(&q, "(push 1)\n(assert (= b%d b%d))\n(check-sat-assuming (", ia, ib)
		for k, rs := range rfSels {
			if (rs.block == ia || rs.block == ib) && c.cells[rs.cell] {
				continue
			}
			fmt.Fprintf(&q, "rf%d ", k)
		}
		q.WriteString("))\n")
		queries++
		res := sol.RawCheck(q.String())
		sol.Raw("(pop 1)\n")
		if os.Getenv("VX_RACE_DEBUG") != "" {
			fmt.Fprintf(os.Stderr, "race query g%d %s%s / g%d %s%s: %v\n", c.a.g, c.ua.where, loc(i.prog.Fset, c.ua.pos), c.b.g, c.ub.where, loc(i.prog.Fset, c.ub.pos), res)
		}
		if res == smt.Sat {
			return &raceReport{a: c.ua, b: c.ub, ga: c.a.g, gb: c.b.g, queries: queries, pairs: pairs, filtered: len(open)}, pairs, queries
		}
		if res == smt.Unknown {
			i.noteInconclusive("solver returned unknown on a race query")
		}
	}
	return nil, pairs, queries
}

func blockLess(a, b *traceBlock, t *trace) bool {
	for _, x := range t.blocks {
		if x == a {
			return true
		}
		if x == b {
			return false
		}
	}
	return false
}

func (r *raceReport) String(fset *token.FileSet) string {
	kind := func(a access) string {
		if a.write {
			return "write"
		}
		return "read"
	}
	return fmt.Sprintf("%s in %s%s (goroutine %d) and %s in %s%s (goroutine %d) can be concurrent",
		kind(r.a), r.a.where, loc(fset, r.a.pos), r.ga, kind(r.b), r.b.where, loc(fset, r.b.pos), r.gb)
}

var _ = sort.Ints
var _ *ssa.Function
