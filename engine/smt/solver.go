package smt

import (
	"bufio"
	"fmt"
	"io"
	"os"
	"os/exec"
	"strconv"
	"strings"
	"time"
)

// Result of a check-sat.
type Result int

const (
	Unsat Result = iota
	Sat
	Unknown
)

func (r Result) String() string { return [...]string{"unsat", "sat", "unknown"}[r] }

// Solver drives one long-lived `z3 -in` (or compatible) process. All the
// text sent since the last Reset is kept in Log so that a query can be
// re-issued verbatim to a second solver for cross-checking.
type Solver struct {
	Path      string
	Args      []string
	cmd       *exec.Cmd
	in        io.WriteCloser
	out       *bufio.Reader
	Log       strings.Builder
	P         *Printer
	TimeoutMS int
	Queries   int
	SolverNS  int64
	Errors    []string
	nsyms     int
	UseAssuming bool
	inPath      bool
	pathsSinceReset int
}

func NewSolver(path string, args []string, timeoutMS int) (*Solver, error) {
	s := &Solver{Path: path, Args: args, TimeoutMS: timeoutMS, P: NewPrinter(), UseAssuming: os.Getenv("VX_ASSUMING") != ""}
	if err := s.start(); err != nil {
		return nil, err
	}
	return s, nil
}

func (s *Solver) start() error {
	s.cmd = exec.Command(s.Path, s.Args...)
	in, err := s.cmd.StdinPipe()
	if err != nil {
		return err
	}
	out, err := s.cmd.StdoutPipe()
	if err != nil {
		return err
	}
	s.cmd.Stderr = nil
	if err := s.cmd.Start(); err != nil {
		return err
	}
	s.in = in
	s.out = bufio.NewReaderSize(out, 1<<16)
	return nil
}

func (s *Solver) Close() {
	if s.cmd != nil {
		s.in.Close()
		s.cmd.Process.Kill()
		s.cmd.Wait()
		s.cmd = nil
	}
}

func (s *Solver) send(text string) {
	s.Log.WriteString(text)
	io.WriteString(s.in, text)
}

// Reset clears the solver state (start of a new path).
func (s *Solver) Reset() {
	s.Log.Reset()
	s.P.Reset()
	s.nsyms = 0
	// A real (reset) costs ~3 ms in z3; scoping each path with push/pop
	// (declarations are scoped too) costs ~0.5 ms. Do a real reset now and
	// then to bound the solver's memory.
	if s.inPath && s.pathsSinceReset < 400 {
		io.WriteString(s.in, "(pop 1)\n")
		s.pathsSinceReset++
	} else {
		io.WriteString(s.in, "(reset)\n")
		if strings.Contains(s.Path, "cvc5") {
			io.WriteString(s.in, "(set-logic QF_BV)\n")
		}
		io.WriteString(s.in, fmt.Sprintf("(set-option :timeout %d)\n", s.TimeoutMS))
		s.pathsSinceReset = 0
	}
	io.WriteString(s.in, "(push 1)\n")
	s.inPath = true
}

func (s *Solver) flushDefs() {
	if s.P.Out.Len() > 0 {
		s.send(s.P.Out.String())
		s.P.Out.Reset()
	}
}

// Assert adds t to the path condition.
func (s *Solver) Assert(t *Term) {
	n := s.P.Define(t)
	s.flushDefs()
	s.send("(assert " + n + ")\n")
}

func (s *Solver) readLine() (string, error) {
	line, err := s.out.ReadString('\n')
	return strings.TrimSpace(line), err
}

// Check decides sat(PC ∧ extra...). On Sat it returns a model for the
// first nsyms symbols of ctx.
func (s *Solver) Check(ctx *Ctx, extra ...*Term) (Result, Model) {
	names := make([]string, len(extra))
	for i, t := range extra {
		names[i] = s.P.Define(t)
	}
	// make sure all symbols are declared so get-value works
	for _, sy := range ctx.Syms {
		s.P.Define(sy)
	}
	s.flushDefs()
	var sb strings.Builder
	if s.UseAssuming {
		sb.WriteString("(check-sat-assuming (")
		for _, n := range names {
			if n == "true" {
				continue
			}
			if n == "false" {
				return Unsat, nil
			}
			sb.WriteString(n + " ")
		}
		sb.WriteString("))\n")
	} else {
		sb.WriteString("(push 1)\n")
		for _, n := range names {
			sb.WriteString("(assert " + n + ")\n")
		}
		sb.WriteString("(check-sat)\n")
	}
	t0 := time.Now()
	s.send(sb.String())
	s.Queries++
	res := Unknown
	line, err := s.readLine()
	for err == nil && strings.HasPrefix(line, "(error") {
		s.Errors = append(s.Errors, line)
		line, err = s.readLine()
	}
	switch line {
	case "sat":
		res = Sat
	case "unsat":
		res = Unsat
	default:
		if err != nil {
			s.Errors = append(s.Errors, "solver died: "+err.Error())
			// restart so later paths can continue; this query is unknown
			s.Close()
			s.start()
			s.inPath = false
			s.SolverNS += time.Since(t0).Nanoseconds()
			return Unknown, nil
		}
	}
	var model Model
	if res == Sat && len(ctx.Syms) > 0 {
		var q strings.Builder
		q.WriteString("(get-value (")
		for i := range ctx.Syms {
			fmt.Fprintf(&q, "s%d ", i)
		}
		q.WriteString("))\n")
		s.send(q.String())
		model = make(Model, len(ctx.Syms))
		// response may span several lines; read until parens balance
		depth := 0
		var resp strings.Builder
		started := false
		for {
			l, err := s.readLine()
			if err != nil {
				s.Errors = append(s.Errors, "solver died in get-value")
				res = Unknown
				break
			}
			if strings.HasPrefix(l, "(error") {
				s.Errors = append(s.Errors, l)
				res = Unknown
				break
			}
			resp.WriteString(l)
			resp.WriteByte(' ')
			for _, ch := range l {
				if ch == '(' {
					depth++
					started = true
				} else if ch == ')' {
					depth--
				}
			}
			if started && depth <= 0 {
				break
			}
		}
		if res == Sat {
			if !parseModel(resp.String(), model) {
				s.Errors = append(s.Errors, "cannot parse model: "+resp.String())
				res = Unknown
			}
		}
	}
	if !s.UseAssuming {
		s.send("(pop 1)\n")
	}
	s.SolverNS += time.Since(t0).Nanoseconds()
	if len(s.Errors) > 0 && res != Unknown {
		// any (error line makes the answer untrustworthy
		res = Unknown
	}
	return res, model
}

func parseModel(resp string, m Model) bool {
	// tokens: ((s0 #x00) (s1 true) ...)
	r := strings.NewReplacer("(", " ", ")", " ")
	f := strings.Fields(r.Replace(resp))
	if len(f)%2 != 0 {
		return false
	}
	for i := 0; i < len(f); i += 2 {
		if !strings.HasPrefix(f[i], "s") {
			return false
		}
		idx, err := strconv.Atoi(f[i][1:])
		if err != nil || idx >= len(m) {
			return false
		}
		v := f[i+1]
		switch {
		case v == "true":
			m[idx] = 1
		case v == "false":
			m[idx] = 0
		case strings.HasPrefix(v, "#x"):
			u, err := strconv.ParseUint(v[2:], 16, 64)
			if err != nil {
				return false
			}
			m[idx] = u
		case strings.HasPrefix(v, "#b"):
			u, err := strconv.ParseUint(v[2:], 2, 64)
			if err != nil {
				return false
			}
			m[idx] = u
		default:
			return false
		}
	}
	return true
}

// Script returns a standalone SMT-LIB2 script equivalent to "everything
// asserted so far plus extra", for cross-checking with another solver.
func (s *Solver) Script(extra ...*Term) string {
	names := make([]string, len(extra))
	for i, t := range extra {
		names[i] = s.P.Define(t)
	}
	s.flushDefs()
	var sb strings.Builder
	for _, l := range strings.Split(s.Log.String(), "\n") {
		if strings.HasPrefix(l, "(reset)") || strings.HasPrefix(l, "(set-option :timeout") || strings.HasPrefix(l, "(get-value") {
			continue
		}
		sb.WriteString(l)
		sb.WriteByte('\n')
	}
	for _, n := range names {
		sb.WriteString("(assert " + n + ")\n")
	}
	sb.WriteString("(check-sat)\n")
	return sb.String()
}

// RunScript feeds a standalone script to a one-shot solver process.
func RunScript(path string, args []string, script string, timeout time.Duration) (Result, string) {
	cmd := exec.Command(path, args...)
	cmd.Stdin = strings.NewReader(script)
	done := make(chan struct{})
	var out []byte
	var err error
	go func() { out, err = cmd.Output(); close(done) }()
	select {
	case <-done:
	case <-time.After(timeout):
		if cmd.Process != nil {
			cmd.Process.Kill()
		}
		<-done
		return Unknown, "timeout"
	}
	_ = err
	txt := string(out)
	if strings.Contains(txt, "(error") {
		return Unknown, txt
	}
	last := ""
	for _, l := range strings.Split(strings.TrimSpace(txt), "\n") {
		l = strings.TrimSpace(l)
		if l == "sat" || l == "unsat" || l == "unknown" {
			last = l
		}
	}
	switch last {
	case "sat":
		return Sat, txt
	case "unsat":
		return Unsat, txt
	}
	return Unknown, txt
}

// Raw sends text to the solver without expecting an answer.
func (s *Solver) Raw(text string) {
	io.WriteString(s.in, text)
}

// RawCheck sends text that ends with one (check-sat) and reads the verdict.
func (s *Solver) RawCheck(text string) Result {
	t0 := time.Now()
	io.WriteString(s.in, text)
	s.Queries++
	line, err := s.readLine()
	for err == nil && strings.HasPrefix(line, "(error") {
		s.Errors = append(s.Errors, line)
		line, err = s.readLine()
	}
	s.SolverNS += time.Since(t0).Nanoseconds()
	switch line {
	case "sat":
		return Sat
	case "unsat":
		return Unsat
	}
	if err != nil {
		s.Errors = append(s.Errors, "solver died: "+err.Error())
		s.Close()
		s.start()
		s.inPath = false
	}
	return Unknown
}
