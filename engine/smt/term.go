// Package smt is a small bit-vector term library: construction with
// constant folding / known-bits simplification, concrete evaluation under a
// model, and SMT-LIB2 printing (one define-fun per shared node).
package smt

import (
	"fmt"
	"strings"
)

type Op uint8

const (
	OConst Op = iota
	OSym
	ONot // bool
	OAnd // bool
	OOr  // bool
	OIte // bool or bv
	OEq  // args same sort -> bool
	OUlt
	OUle
	OSlt
	OSle
	OAdd
	OSub
	OMul
	OUdiv
	OUrem
	OSdiv
	OSrem
	OBvAnd
	OBvOr
	OBvXor
	OBvNot
	OBvNeg
	OShl
	OLshr
	OAshr
	OExtract // val = hi<<8|lo
	OZext    // to width W
	OSext    // to width W
	OConcat
)

var opName = map[Op]string{
	ONot: "not", OAnd: "and", OOr: "or", OIte: "ite", OEq: "=",
	OUlt: "bvult", OUle: "bvule", OSlt: "bvslt", OSle: "bvsle",
	OAdd: "bvadd", OSub: "bvsub", OMul: "bvmul", OUdiv: "bvudiv", OUrem: "bvurem",
	OSdiv: "bvsdiv", OSrem: "bvsrem", OBvAnd: "bvand", OBvOr: "bvor", OBvXor: "bvxor",
	OBvNot: "bvnot", OBvNeg: "bvneg", OShl: "bvshl", OLshr: "bvlshr", OAshr: "bvashr",
	OConcat: "concat",
}

// Term is an immutable DAG node. W == 0 means Bool, otherwise a bit-vector
// of width W (1..64).
type Term struct {
	Op   Op
	W    int
	Args []*Term
	Val  uint64 // const value / symbol index / extract hi<<8|lo
	ID   int    // unique within Ctx (creation order)
	// known bits (bit-vectors only): KZ bits known zero, KO bits known one.
	KZ, KO uint64
}

// Ctx owns the terms of one path.
type Ctx struct {
	n     int
	Syms  []*Term
	Names []string
	cons  map[string]*Term
	T, F  *Term
}

func NewCtx() *Ctx {
	c := &Ctx{cons: map[string]*Term{}}
	c.T = c.mk(&Term{Op: OConst, W: 0, Val: 1})
	c.F = c.mk(&Term{Op: OConst, W: 0, Val: 0})
	return c
}

func mask(w int) uint64 {
	if w >= 64 {
		return ^uint64(0)
	}
	return (uint64(1) << uint(w)) - 1
}

func (c *Ctx) mk(t *Term) *Term {
	var sb strings.Builder
	fmt.Fprintf(&sb, "%d:%d:%x", t.Op, t.W, t.Val)
	for _, a := range t.Args {
		fmt.Fprintf(&sb, ",%d", a.ID)
	}
	k := sb.String()
	if o, ok := c.cons[k]; ok {
		return o
	}
	c.n++
	t.ID = c.n
	if t.W > 0 {
		c.knownBits(t)
	}
	c.cons[k] = t
	return t
}

func (c *Ctx) knownBits(t *Term) {
	m := mask(t.W)
	switch t.Op {
	case OConst:
		t.KO = t.Val & m
		t.KZ = ^t.Val & m
	case OBvAnd:
		a, b := t.Args[0], t.Args[1]
		t.KZ = (a.KZ | b.KZ) & m
		t.KO = a.KO & b.KO
	case OBvOr:
		a, b := t.Args[0], t.Args[1]
		t.KZ = a.KZ & b.KZ
		t.KO = (a.KO | b.KO) & m
	case OBvXor:
		a, b := t.Args[0], t.Args[1]
		known := (a.KZ | a.KO) & (b.KZ | b.KO)
		v := (a.KO ^ b.KO) & known
		t.KO = v
		t.KZ = known &^ v & m
	case OBvNot:
		t.KZ = t.Args[0].KO
		t.KO = t.Args[0].KZ
	case OShl:
		if s := t.Args[1]; s.Op == OConst {
			a := t.Args[0]
			if s.Val >= uint64(t.W) {
				t.KZ = m
			} else {
				t.KZ = ((a.KZ << s.Val) | mask(int(s.Val))) & m
				t.KO = (a.KO << s.Val) & m
			}
		}
	case OLshr:
		if s := t.Args[1]; s.Op == OConst {
			a := t.Args[0]
			if s.Val >= uint64(t.W) {
				t.KZ = m
			} else {
				t.KZ = ((a.KZ >> s.Val) | ^(m >> s.Val)) & m
				t.KO = (a.KO >> s.Val) & m
			}
		}
	case OExtract:
		lo := t.Val & 0xff
		a := t.Args[0]
		t.KZ = (a.KZ >> lo) & m
		t.KO = (a.KO >> lo) & m
	case OZext:
		a := t.Args[0]
		t.KZ = (a.KZ | ^mask(a.W)) & m
		t.KO = a.KO
	case OSext:
		a := t.Args[0]
		sb := uint64(1) << uint(a.W-1)
		t.KZ, t.KO = a.KZ, a.KO
		if a.KZ&sb != 0 {
			t.KZ = (a.KZ | ^mask(a.W)) & m
		} else if a.KO&sb != 0 {
			t.KO = (a.KO | ^mask(a.W)) & m
		}
	case OConcat:
		hi, lo := t.Args[0], t.Args[1]
		t.KZ = (hi.KZ<<uint(lo.W) | lo.KZ) & m
		t.KO = (hi.KO<<uint(lo.W) | lo.KO) & m
	case OIte:
		a, b := t.Args[1], t.Args[2]
		t.KZ = a.KZ & b.KZ
		t.KO = a.KO & b.KO
	case OUrem:
		// x % c with c a power of two
		if d := t.Args[1]; d.Op == OConst && d.Val != 0 && d.Val&(d.Val-1) == 0 {
			t.KZ = (t.Args[0].KZ | ^(d.Val - 1)) & m
			t.KO = t.Args[0].KO & (d.Val - 1)
		}
	}
}

func (c *Ctx) allKnown(t *Term) *Term {
	if t.W > 0 && t.Op != OConst && (t.KZ|t.KO)&mask(t.W) == mask(t.W) {
		return c.Const(t.W, t.KO)
	}
	return t
}

func (c *Ctx) Const(w int, v uint64) *Term {
	if w == 0 {
		if v != 0 {
			return c.T
		}
		return c.F
	}
	return c.mk(&Term{Op: OConst, W: w, Val: v & mask(w)})
}

func (c *Ctx) Bool(b bool) *Term {
	if b {
		return c.T
	}
	return c.F
}

// NewSym creates a fresh symbol (named by creation order).
func (c *Ctx) NewSym(w int, name string) *Term {
	idx := len(c.Syms)
	t := c.mk(&Term{Op: OSym, W: w, Val: uint64(idx)})
	c.Syms = append(c.Syms, t)
	c.Names = append(c.Names, name)
	return t
}

func (t *Term) IsConst() bool { return t.Op == OConst }
func (t *Term) IsTrue() bool  { return t.Op == OConst && t.W == 0 && t.Val == 1 }
func (t *Term) IsFalse() bool { return t.Op == OConst && t.W == 0 && t.Val == 0 }

func sext64(v uint64, w int) int64 {
	if w >= 64 {
		return int64(v)
	}
	sh := uint(64 - w)
	return int64(v<<sh) >> sh
}

// ---------------------------------------------------------------- bool

func (c *Ctx) Not(a *Term) *Term {
	if a.IsConst() {
		return c.Bool(a.Val == 0)
	}
	if a.Op == ONot {
		return a.Args[0]
	}
	return c.mk(&Term{Op: ONot, Args: []*Term{a}})
}

func (c *Ctx) And(a, b *Term) *Term {
	if a.IsFalse() || b.IsFalse() {
		return c.F
	}
	if a.IsTrue() {
		return b
	}
	if b.IsTrue() {
		return a
	}
	if a == b {
		return a
	}
	if (a.Op == ONot && a.Args[0] == b) || (b.Op == ONot && b.Args[0] == a) {
		return c.F
	}
	return c.mk(&Term{Op: OAnd, Args: []*Term{a, b}})
}

func (c *Ctx) Or(a, b *Term) *Term {
	if a.IsTrue() || b.IsTrue() {
		return c.T
	}
	if a.IsFalse() {
		return b
	}
	if b.IsFalse() {
		return a
	}
	if a == b {
		return a
	}
	if (a.Op == ONot && a.Args[0] == b) || (b.Op == ONot && b.Args[0] == a) {
		return c.T
	}
	return c.mk(&Term{Op: OOr, Args: []*Term{a, b}})
}

func (c *Ctx) Implies(a, b *Term) *Term { return c.Or(c.Not(a), b) }

func (c *Ctx) Ite(cond, a, b *Term) *Term {
	if cond.IsConst() {
		if cond.Val != 0 {
			return a
		}
		return b
	}
	if a == b {
		return a
	}
	if a.W == 0 {
		if a.IsTrue() && b.IsFalse() {
			return cond
		}
		if a.IsFalse() && b.IsTrue() {
			return c.Not(cond)
		}
		if a.IsTrue() {
			return c.Or(cond, b)
		}
		if a.IsFalse() {
			return c.And(c.Not(cond), b)
		}
		if b.IsTrue() {
			return c.Or(c.Not(cond), a)
		}
		if b.IsFalse() {
			return c.And(cond, a)
		}
	}
	return c.allKnown(c.mk(&Term{Op: OIte, W: a.W, Args: []*Term{cond, a, b}}))
}

// isConstTree reports whether t is a constant or an ite tree with constant
// leaves (depth-limited) - the shape produced by bytes.Compare.
func isConstTree(t *Term, depth int) bool {
	if t.IsConst() {
		return true
	}
	if t.Op == OIte && depth > 0 {
		return isConstTree(t.Args[1], depth-1) && isConstTree(t.Args[2], depth-1)
	}
	return false
}

// liftIte applies f to the leaves of a constant-leaf ite tree.
func (c *Ctx) liftIte(t *Term, f func(*Term) *Term) *Term {
	if t.Op == OIte {
		return c.Ite(t.Args[0], c.liftIte(t.Args[1], f), c.liftIte(t.Args[2], f))
	}
	return f(t)
}

// ---------------------------------------------------------------- compare

func (c *Ctx) Eq(a, b *Term) *Term {
	if a == b {
		return c.T
	}
	if a.IsConst() && b.IsConst() {
		return c.Bool(a.Val == b.Val)
	}
	if a.W == 0 {
		if a.IsConst() {
			a, b = b, a
		}
		if b.IsTrue() {
			return a
		}
		if b.IsFalse() {
			return c.Not(a)
		}
		return c.mk(&Term{Op: OEq, Args: []*Term{a, b}})
	}
	if a.IsConst() {
		a, b = b, a
	}
	if b.IsConst() {
		// known-bits contradiction
		if (a.KO&^b.Val) != 0 || (a.KZ&b.Val) != 0 {
			return c.F
		}
		if a.Op == OIte && isConstTree(a, 6) {
			return c.liftIte(a, func(l *Term) *Term { return c.Eq(l, b) })
		}
		// zext(x) == k  ->  x == k (if k fits)
		if a.Op == OZext {
			if b.Val&^mask(a.Args[0].W) != 0 {
				return c.F
			}
			return c.Eq(a.Args[0], c.Const(a.Args[0].W, b.Val))
		}
	}
	if a.ID > b.ID {
		a, b = b, a
	}
	return c.mk(&Term{Op: OEq, Args: []*Term{a, b}})
}

func (c *Ctx) cmp(op Op, a, b *Term) *Term {
	if a.IsConst() && b.IsConst() {
		var r bool
		switch op {
		case OUlt:
			r = a.Val < b.Val
		case OUle:
			r = a.Val <= b.Val
		case OSlt:
			r = sext64(a.Val, a.W) < sext64(b.Val, b.W)
		case OSle:
			r = sext64(a.Val, a.W) <= sext64(b.Val, b.W)
		}
		return c.Bool(r)
	}
	if a == b {
		return c.Bool(op == OUle || op == OSle)
	}
	if b.IsConst() && a.Op == OIte && isConstTree(a, 6) {
		return c.liftIte(a, func(l *Term) *Term { return c.cmp(op, l, b) })
	}
	if a.IsConst() && b.Op == OIte && isConstTree(b, 6) {
		return c.liftIte(b, func(l *Term) *Term { return c.cmp(op, a, l) })
	}
	// unsigned range facts from known-zero bits
	if op == OUlt || op == OUle {
		amax := ^a.KZ & mask(a.W)
		amin := a.KO
		bmax := ^b.KZ & mask(b.W)
		bmin := b.KO
		if op == OUlt {
			if amax < bmin {
				return c.T
			}
			if amin >= bmax {
				return c.F
			}
		} else {
			if amax <= bmin {
				return c.T
			}
			if amin > bmax {
				return c.F
			}
		}
	}
	if op == OSlt || op == OSle {
		// if both sign bits are known zero, treat as unsigned
		sb := uint64(1) << uint(a.W-1)
		if a.KZ&sb != 0 && b.KZ&sb != 0 {
			if op == OSlt {
				return c.cmp(OUlt, a, b)
			}
			return c.cmp(OUle, a, b)
		}
	}
	return c.mk(&Term{Op: op, Args: []*Term{a, b}})
}

func (c *Ctx) Ult(a, b *Term) *Term { return c.cmp(OUlt, a, b) }
func (c *Ctx) Ule(a, b *Term) *Term { return c.cmp(OUle, a, b) }
func (c *Ctx) Slt(a, b *Term) *Term { return c.cmp(OSlt, a, b) }
func (c *Ctx) Sle(a, b *Term) *Term { return c.cmp(OSle, a, b) }

// ---------------------------------------------------------------- arithmetic

func evalBin(op Op, w int, x, y uint64) uint64 {
	m := mask(w)
	switch op {
	case OAdd:
		return (x + y) & m
	case OSub:
		return (x - y) & m
	case OMul:
		return (x * y) & m
	case OUdiv:
		if y == 0 {
			return m
		}
		return x / y
	case OUrem:
		if y == 0 {
			return x
		}
		return x % y
	case OSdiv:
		sx, sy := sext64(x, w), sext64(y, w)
		if sy == 0 {
			if sx >= 0 {
				return m
			}
			return 1
		}
		if sy == -1 {
			return uint64(-sx) & m
		}
		return uint64(sx/sy) & m
	case OSrem:
		sx, sy := sext64(x, w), sext64(y, w)
		if sy == 0 {
			return x
		}
		if sy == -1 {
			return 0
		}
		return uint64(sx%sy) & m
	case OBvAnd:
		return x & y
	case OBvOr:
		return x | y
	case OBvXor:
		return x ^ y
	case OShl:
		if y >= uint64(w) {
			return 0
		}
		return (x << y) & m
	case OLshr:
		if y >= uint64(w) {
			return 0
		}
		return x >> y
	case OAshr:
		sx := sext64(x, w)
		if y >= uint64(w) {
			y = uint64(w - 1)
		}
		return uint64(sx>>y) & m
	}
	panic("evalBin")
}

func (c *Ctx) Bin(op Op, a, b *Term) *Term {
	w := a.W
	if a.W != b.W {
		panic(fmt.Sprintf("smt.Bin %v: width mismatch %d vs %d", opName[op], a.W, b.W))
	}
	if a.IsConst() && b.IsConst() {
		return c.Const(w, evalBin(op, w, a.Val, b.Val))
	}
	m := mask(w)
	switch op {
	case OAdd:
		if a.IsConst() && a.Val == 0 {
			return b
		}
		if b.IsConst() && b.Val == 0 {
			return a
		}
	case OSub:
		if b.IsConst() && b.Val == 0 {
			return a
		}
		if a == b {
			return c.Const(w, 0)
		}
	case OMul:
		if (a.IsConst() && a.Val == 0) || (b.IsConst() && b.Val == 0) {
			return c.Const(w, 0)
		}
		if a.IsConst() && a.Val == 1 {
			return b
		}
		if b.IsConst() && b.Val == 1 {
			return a
		}
	case OBvAnd:
		if a == b {
			return a
		}
		if a.IsConst() {
			a, b = b, a
		}
		if b.IsConst() {
			if b.Val == 0 {
				return c.Const(w, 0)
			}
			if b.Val == m {
				return a
			}
			// mask that keeps all possibly-one bits of a
			if (^a.KZ&m)&^b.Val == 0 {
				return a
			}
		}
	case OBvOr:
		if a == b {
			return a
		}
		if a.IsConst() {
			a, b = b, a
		}
		if b.IsConst() {
			if b.Val == 0 {
				return a
			}
			if b.Val == m {
				return b
			}
		}
	case OBvXor:
		if a == b {
			return c.Const(w, 0)
		}
		if b.IsConst() && b.Val == 0 {
			return a
		}
		if a.IsConst() && a.Val == 0 {
			return b
		}
	case OShl, OLshr, OAshr:
		if b.IsConst() && b.Val == 0 {
			return a
		}
		if a.IsConst() && a.Val == 0 {
			return a
		}
	case OUdiv, OSdiv:
		if b.IsConst() && b.Val == 1 {
			return a
		}
	}
	if b.IsConst() && a.Op == OIte && isConstTree(a, 6) {
		return c.liftIte(a, func(l *Term) *Term { return c.Bin(op, l, b) })
	}
	return c.allKnown(c.mk(&Term{Op: op, W: w, Args: []*Term{a, b}}))
}

func (c *Ctx) BvNot(a *Term) *Term {
	if a.IsConst() {
		return c.Const(a.W, ^a.Val)
	}
	if a.Op == OBvNot {
		return a.Args[0]
	}
	return c.allKnown(c.mk(&Term{Op: OBvNot, W: a.W, Args: []*Term{a}}))
}

func (c *Ctx) BvNeg(a *Term) *Term {
	if a.IsConst() {
		return c.Const(a.W, -a.Val)
	}
	return c.mk(&Term{Op: OBvNeg, W: a.W, Args: []*Term{a}})
}

func (c *Ctx) Extract(a *Term, hi, lo int) *Term {
	w := hi - lo + 1
	if lo == 0 && w == a.W {
		return a
	}
	if a.IsConst() {
		return c.Const(w, a.Val>>uint(lo))
	}
	if a.Op == OZext || a.Op == OSext {
		in := a.Args[0]
		if hi < in.W {
			return c.Extract(in, hi, lo)
		}
		if a.Op == OZext && lo >= in.W {
			return c.Const(w, 0)
		}
	}
	if a.Op == OConcat {
		l := a.Args[1]
		if hi < l.W {
			return c.Extract(l, hi, lo)
		}
		if lo >= l.W {
			return c.Extract(a.Args[0], hi-l.W, lo-l.W)
		}
	}
	return c.allKnown(c.mk(&Term{Op: OExtract, W: w, Args: []*Term{a}, Val: uint64(hi)<<8 | uint64(lo)}))
}

func (c *Ctx) Zext(a *Term, w int) *Term {
	if w == a.W {
		return a
	}
	if w < a.W {
		return c.Extract(a, w-1, 0)
	}
	if a.IsConst() {
		return c.Const(w, a.Val)
	}
	if a.Op == OZext {
		return c.Zext(a.Args[0], w)
	}
	if a.Op == OIte && isConstTree(a, 6) {
		return c.liftIte(a, func(l *Term) *Term { return c.Zext(l, w) })
	}
	return c.mk(&Term{Op: OZext, W: w, Args: []*Term{a}})
}

func (c *Ctx) Sext(a *Term, w int) *Term {
	if w == a.W {
		return a
	}
	if w < a.W {
		return c.Extract(a, w-1, 0)
	}
	if a.IsConst() {
		return c.Const(w, uint64(sext64(a.Val, a.W)))
	}
	if a.KZ&(uint64(1)<<uint(a.W-1)) != 0 {
		return c.Zext(a, w)
	}
	if a.Op == OIte && isConstTree(a, 6) {
		return c.liftIte(a, func(l *Term) *Term { return c.Sext(l, w) })
	}
	return c.allKnown(c.mk(&Term{Op: OSext, W: w, Args: []*Term{a}}))
}

func (c *Ctx) Concat(hi, lo *Term) *Term {
	if hi.IsConst() && lo.IsConst() {
		return c.Const(hi.W+lo.W, hi.Val<<uint(lo.W)|lo.Val)
	}
	if hi.IsConst() && hi.Val == 0 {
		return c.Zext(lo, hi.W+lo.W)
	}
	return c.mk(&Term{Op: OConcat, W: hi.W + lo.W, Args: []*Term{hi, lo}})
}

// ---------------------------------------------------------------- eval

// Model maps symbol index -> value. Missing symbols evaluate to 0.
type Model []uint64

func (m Model) get(i uint64) uint64 {
	if int(i) < len(m) {
		return m[i]
	}
	return 0
}

type Evaluator struct {
	M    Model
	memo map[*Term]uint64
}

func NewEvaluator(m Model) *Evaluator { return &Evaluator{M: m, memo: map[*Term]uint64{}} }

func (e *Evaluator) Eval(t *Term) uint64 {
	switch t.Op {
	case OConst:
		return t.Val
	case OSym:
		return e.M.get(t.Val) & mask64(t.W)
	}
	if v, ok := e.memo[t]; ok {
		return v
	}
	var v uint64
	switch t.Op {
	case ONot:
		v = 1 - e.Eval(t.Args[0])
	case OAnd:
		v = e.Eval(t.Args[0])
		if v != 0 {
			v = e.Eval(t.Args[1])
		}
	case OOr:
		v = e.Eval(t.Args[0])
		if v == 0 {
			v = e.Eval(t.Args[1])
		}
	case OIte:
		if e.Eval(t.Args[0]) != 0 {
			v = e.Eval(t.Args[1])
		} else {
			v = e.Eval(t.Args[2])
		}
	case OEq:
		v = b2u(e.Eval(t.Args[0]) == e.Eval(t.Args[1]))
	case OUlt:
		v = b2u(e.Eval(t.Args[0]) < e.Eval(t.Args[1]))
	case OUle:
		v = b2u(e.Eval(t.Args[0]) <= e.Eval(t.Args[1]))
	case OSlt:
		v = b2u(sext64(e.Eval(t.Args[0]), t.Args[0].W) < sext64(e.Eval(t.Args[1]), t.Args[1].W))
	case OSle:
		v = b2u(sext64(e.Eval(t.Args[0]), t.Args[0].W) <= sext64(e.Eval(t.Args[1]), t.Args[1].W))
	case OBvNot:
		v = ^e.Eval(t.Args[0]) & mask(t.W)
	case OBvNeg:
		v = -e.Eval(t.Args[0]) & mask(t.W)
	case OExtract:
		lo := t.Val & 0xff
		v = (e.Eval(t.Args[0]) >> lo) & mask(t.W)
	case OZext:
		v = e.Eval(t.Args[0])
	case OSext:
		v = uint64(sext64(e.Eval(t.Args[0]), t.Args[0].W)) & mask(t.W)
	case OConcat:
		v = e.Eval(t.Args[0])<<uint(t.Args[1].W) | e.Eval(t.Args[1])
	default:
		v = evalBin(t.Op, t.W, e.Eval(t.Args[0]), e.Eval(t.Args[1]))
	}
	e.memo[t] = v
	return v
}

func mask64(w int) uint64 {
	if w == 0 {
		return 1
	}
	return mask(w)
}

func b2u(b bool) uint64 {
	if b {
		return 1
	}
	return 0
}

// ---------------------------------------------------------------- printing

func SortOf(w int) string {
	if w == 0 {
		return "Bool"
	}
	return fmt.Sprintf("(_ BitVec %d)", w)
}

func constStr(w int, v uint64) string {
	if w == 0 {
		if v != 0 {
			return "true"
		}
		return "false"
	}
	if w%4 == 0 {
		return fmt.Sprintf("#x%0*x", w/4, v)
	}
	return fmt.Sprintf("#b%0*b", w, v)
}

// Printer emits SMT-LIB2 definitions incrementally; each shared node is
// defined once with define-fun.
type Printer struct {
	done map[*Term]bool
	Out  *strings.Builder
}

func NewPrinter() *Printer { return &Printer{done: map[*Term]bool{}, Out: &strings.Builder{}} }

// Reset forgets emitted definitions (after a solver (reset)).
func (p *Printer) Reset() { p.done = map[*Term]bool{}; p.Out.Reset() }

func (p *Printer) ref(t *Term) string {
	switch t.Op {
	case OConst:
		return constStr(t.W, t.Val)
	case OSym:
		return fmt.Sprintf("s%d", t.Val)
	}
	return fmt.Sprintf("t%d", t.ID)
}

// Define makes sure t (and everything below it) is declared in Out and
// returns the name that refers to it.
func (p *Printer) Define(t *Term) string {
	if t.Op == OConst {
		return p.ref(t)
	}
	if p.done[t] {
		return p.ref(t)
	}
	// iterative post-order to avoid deep recursion
	type fr struct {
		t *Term
		i int
	}
	st := []fr{{t, 0}}
	for len(st) > 0 {
		f := &st[len(st)-1]
		if p.done[f.t] || f.t.Op == OConst {
			st = st[:len(st)-1]
			continue
		}
		if f.i < len(f.t.Args) {
			a := f.t.Args[f.i]
			f.i++
			if !p.done[a] && a.Op != OConst {
				st = append(st, fr{a, 0})
			}
			continue
		}
		p.emit(f.t)
		p.done[f.t] = true
		st = st[:len(st)-1]
	}
	return p.ref(t)
}

func (p *Printer) emit(t *Term) {
	o := p.Out
	if t.Op == OSym {
		fmt.Fprintf(o, "(declare-const s%d %s)\n", t.Val, SortOf(t.W))
		return
	}
	fmt.Fprintf(o, "(define-fun t%d () %s ", t.ID, SortOf(t.W))
	switch t.Op {
	case OExtract:
		fmt.Fprintf(o, "((_ extract %d %d) %s)", t.Val>>8, t.Val&0xff, p.ref(t.Args[0]))
	case OZext:
		fmt.Fprintf(o, "((_ zero_extend %d) %s)", t.W-t.Args[0].W, p.ref(t.Args[0]))
	case OSext:
		fmt.Fprintf(o, "((_ sign_extend %d) %s)", t.W-t.Args[0].W, p.ref(t.Args[0]))
	default:
		fmt.Fprintf(o, "(%s", opName[t.Op])
		for _, a := range t.Args {
			o.WriteByte(' ')
			o.WriteString(p.ref(a))
		}
		o.WriteByte(')')
	}
	o.WriteString(")\n")
}
