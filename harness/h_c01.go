package moss

// C01: reads reflect exactly the batches executed so far.

func init() {
	vxRegister("vxH_C01_history", vxH_C01_history)
}

// vxH_C01_history: from an empty started in-memory collection, a symbolic
// sequence of steps - execute a symbolic batch, run one merger cycle, run a
// merge-all cycle, let the background goroutines run to quiescence - with
// the real merger goroutine; after every step a snapshot equals the
// reference (Get of a symbolic key and full iteration).
func vxH_C01_history() {
	steps, nops, kl, vl := 3, 1, 1, 1
	co := CollectionOptions{}
	if vxTier() == 1 {
		co.DeferredSort = vxChoose(2) == 1
	}
	ci, err := NewCollection(co)
	vxAssert("new-ok", err == nil)
	c := ci.(*collection)
	c.Start()
	var layers [][]vxEnt
	nbatches := 0
	for s := 0; s < steps; s++ {
		kind := 1
		if nbatches > 0 {
			kind = vxChoose(5)
		}
		if kind == 0 {
			break // histories of every length up to the bound end here
		}
		switch kind {
		case 1:
			n := 1
			if nbatches == 0 {
				n = 1 + vxChoose(nops)
			}
			ents := vxNewBatchEnts(n, kl, vl, vxOpsSetDel)
			vxExec(c, ents)
			layers = append(layers, ents)
			nbatches++
		case 2:
			c.NotifyMerger("go", true)
		case 3:
			c.NotifyMerger("mergeAll", true)
		case 4:
			vxQuiesce()
		}
	}
	snap, err := c.Snapshot()
	vxAssert("snapshot-ok", err == nil)
	vxCheckSnapshot("final", snap, kl, layers)
	snap.Close()
	c.Close()
}
