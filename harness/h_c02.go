package moss

// C02: a snapshot is frozen for its whole life (in-memory part; the
// store-backed part is vxH_C15_handles).

func init() { vxRegister("vxH_C02_frozen", vxH_C02_frozen) }

func vxH_C02_frozen() {
	steps, kl, vl := 4, 1, 1
	ci, err := NewCollection(CollectionOptions{})
	vxAssert("new-ok", err == nil)
	c := ci.(*collection)
	c.Start()
	K := vxNewKey(kl)
	kb := vxKeyBytes(K)
	var layers [][]vxEnt
	var snap Snapshot
	var it Iterator
	nlay := 0
	closed := false
	check := func() {
		if snap == nil {
			return
		}
		ref := vxRefGet(K, layers[:nlay]...)
		got, gerr := snap.Get(kb, ReadOptions{})
		vxAssert("frozen-get-ok", gerr == nil)
		vxAssert("snapshot-frozen", vxGotIs(got, ref))
		ik, iv, ierr := it.Current()
		if ierr == ErrIteratorDone {
			vxAssert("iterator-frozen", vxNot(ref.live))
		} else {
			atK := vxKeyEq(vxKeyOf(ik), K)
			vxAssert("iterator-frozen", vxAnd(vxImplies(atK, vxAnd(ref.live, vxValIs(iv, ref.v))), vxImplies(ref.live, atK)))
		}
	}
	for s := 0; s < steps; s++ {
		kind := 1
		if s > 0 {
			kind = vxChoose(6)
		}
		if kind == 0 {
			break
		}
		if closed && kind != 0 {
			break
		}
		switch kind {
		case 1:
			ents := vxNewBatchEnts(1, kl, vl, vxOpsSetDel)
			vxExec(c, ents)
			layers = append(layers, ents)
		case 2:
			c.NotifyMerger("go", true)
		case 3:
			c.NotifyMerger("mergeAll", true)
		case 4:
			if snap == nil {
				snap, err = c.Snapshot()
				vxAssert("snapshot-ok", err == nil)
				it, err = snap.StartIterator(kb, nil, IteratorOptions{})
				vxAssert("iter-ok", err == nil)
				nlay = len(layers)
			}
		case 5:
			c.Close()
			closed = true
		}
		check()
	}
	if snap != nil {
		it.Close()
		snap.Close()
	}
	if !closed {
		c.Close()
	}
}

func init() { vxRegister("vxH_C02_childHandles", vxH_C02_childHandles) }

// vxH_C02_childHandles: a store-backed collection with a child collection;
// after one persisted round a snapshot (of the collection or of the store)
// is held open while child snapshots are opened, read and closed on it and
// further rounds / empty merger cycles happen. The held snapshot keeps
// showing the first round, in the parent and in every child snapshot that
// is opened on it, however often.
func vxH_C02_childHandles() {
	steps := 3
	fs := vxNewFS()
	so := vxStoreOptions(fs)
	so.CompactionLevelMaxSegments = 1
	so.CompactionPercentage = -1
	so.CollectionOptions.CachePersisted = vxChoose(2) == 1
	po := StorePersistOptions{CompactionConcern: CompactionConcern(vxChoose(3))}
	store, coll, err := OpenStoreCollection(fs.dir, so, po)
	vxAssert("open-ok", err == nil)
	ref := vxNewNode()
	ref.kids["a"] = vxNewNode()
	names := []string{"a"}
	none := map[string]bool{}
	var K vxKey
	K.n = 1
	K.b[0] = 'k'
	kb := vxKeyBytes(K)
	round := func() {
		b, berr := coll.NewBatch(4, 64)
		vxAssert("newbatch-ok", berr == nil)
		ents := vxFixedSet()
		vxFillBatch(b, ents)
		ref.layers = append(ref.layers, ents)
		cb, cerr := b.NewChildCollectionBatch("a", BatchOptions{TotalOps: 2, TotalKeyValBytes: 16})
		vxAssert("childbatch-ok", cerr == nil)
		cents := vxFixedSet()
		vxFillBatch(cb, cents)
		ref.kids["a"].layers = append(ref.kids["a"].layers, cents)
		vxAssert("executebatch-ok", coll.ExecuteBatch(b, WriteOptions{}) == nil)
		b.Close()
		vxDrain(coll)
	}
	round()
	if vxChoose(2) == 1 {
		// the first round comes from an earlier session
		coll.Close()
		store.Close()
		vxQuiesce()
		store, coll, err = OpenStoreCollection(fs.dir, so, po)
		vxAssert("reopen-ok", err == nil)
	}
	var held Snapshot
	if vxChoose(2) == 1 {
		held, err = store.Snapshot()
	} else {
		held, err = coll.Snapshot()
	}
	vxAssert("held-snapshot-ok", err == nil)
	// the reference the held snapshot is frozen at
	frozen := vxNewNode()
	frozen.layers = append(frozen.layers, ref.layers...)
	frozen.kids["a"] = vxNewNode()
	frozen.kids["a"].layers = append(frozen.kids["a"].layers, ref.kids["a"].layers...)
	vxCheckTree("held-first", held, frozen, K, kb, names, none)
	for s := 0; s < steps; s++ {
		kind := vxChoose(4)
		if kind == 0 {
			break
		}
		switch kind {
		case 1:
			round()
		case 2:
			coll.(*collection).NotifyMerger("idle", true)
			vxQuiesce()
		case 3:
			// another reader opens and closes its own snapshot and child
			// snapshot (possibly the same cached object)
			other, oerr := coll.Snapshot()
			vxAssert("other-snapshot-ok", oerr == nil)
			oc, _ := other.ChildCollectionSnapshot("a")
			if oc != nil {
				oc.Close()
			}
			other.Close()
		}
		vxCheckTree("held", held, frozen, K, kb, names, none)
	}
	// the current state is still right too
	cur, cerr := coll.Snapshot()
	vxAssert("current-snapshot-ok", cerr == nil)
	vxCheckTree("current", cur, ref, K, kb, names, none)
	cur.Close()
	held.Close()
	coll.Close()
	store.Close()
}

func init() { vxRegister("vxH_C02_childFrozen", vxH_C02_childFrozen) }

// vxH_C02_childFrozen: in-memory collection with a child collection. A
// first child batch is left in the top section, merged, or merged fully; a
// snapshot is taken and held; then two more rounds of {child batch (Set or
// Del), something that builds a new stack: another Snapshot, a
// Collection.Get, a merger cycle, or nothing}. After every round the held
// snapshot's child still reads the first batch (Get and iterator), and the
// parent is still empty.
func vxH_C02_childFrozen() {
	ci, err := NewCollection(CollectionOptions{})
	vxAssert("new-ok", err == nil)
	c := ci.(*collection)
	c.Start()
	var CK vxKey
	CK.n, CK.b[0] = 1, 'k'
	var clayers [][]vxEnt
	child := func(mayDel bool) {
		b, berr := c.NewBatch(1, 8)
		vxAssert("newbatch-ok", berr == nil)
		cb, cerr := b.NewChildCollectionBatch("a", BatchOptions{TotalOps: 1, TotalKeyValBytes: 8})
		vxAssert("childbatch-ok", cerr == nil)
		ents := vxFixedSet()
		if mayDel && vxChoose(2) == 1 {
			ents[0].op = OperationDel
			ents[0].v.n = 0
		}
		vxFillBatch(cb, ents)
		vxAssert("executebatch-ok", c.ExecuteBatch(b, WriteOptions{}) == nil)
		b.Close()
		clayers = append(clayers, ents)
	}
	child(false)
	switch vxChoose(3) {
	case 1:
		c.NotifyMerger("go", true)
	case 2:
		c.NotifyMerger("mergeAll", true)
	}
	held, serr := c.Snapshot()
	vxAssert("snapshot-ok", serr == nil)
	frozen := vxRefGet(CK, clayers[:1]...)
	check := func(tag string) {
		pg, perr := held.Get([]byte{'k'}, ReadOptions{})
		vxAssert(tag+"-parent-get-ok", perr == nil)
		vxAssert(tag+"-parent-frozen", pg == nil)
		cs, cerr := held.ChildCollectionSnapshot("a")
		vxAssert(tag+"-child-snapshot-ok", cerr == nil && cs != nil)
		if cs == nil {
			return
		}
		got, gerr := cs.Get([]byte{'k'}, ReadOptions{})
		vxAssert(tag+"-child-get-ok", gerr == nil)
		vxAssert(tag+"-child-frozen", vxGotIs(got, frozen))
		it, ierr := cs.StartIterator(nil, nil, IteratorOptions{})
		vxAssert(tag+"-child-iter-ok", ierr == nil)
		if it != nil {
			ik, iv, cuerr := it.Current()
			vxAssert(tag+"-child-iterator-frozen", cuerr == nil && len(ik) == 1 && ik[0] == 'k' && vxValIs(iv, frozen.v))
			vxAssert(tag+"-child-iterator-has-one-entry", it.Next() == ErrIteratorDone)
			it.Close()
		}
		cs.Close()
	}
	check("held")
	for r := 0; r < 2; r++ {
		child(true)
		switch vxChoose(4) {
		case 1:
			if s2, e2 := c.Snapshot(); e2 == nil {
				s2.Close()
			}
		case 2:
			c.Get([]byte{'k'}, ReadOptions{})
		case 3:
			c.NotifyMerger("go", true)
		}
		check("later")
	}
	// the current state is right as well
	cur, cerr := c.Snapshot()
	vxAssert("snapshot-ok", cerr == nil)
	if cs, _ := cur.ChildCollectionSnapshot("a"); cs != nil {
		got, _ := cs.Get([]byte{'k'}, ReadOptions{})
		vxAssert("current-child-content", vxGotIs(got, vxRefGet(CK, clayers...)))
		cs.Close()
	}
	cur.Close()
	held.Close()
	c.Close()
}
