package moss

// C02: a snapshot is frozen for its whole life (in-memory part; the
// store-backed part is vxH_C15_handles).

func init() { vxRegister("vxH_C02_frozen", vxH_C02_frozen) }

func vxH_C02_frozen() {
	steps, kl, vl := 4, 1, 1
	ci, err := NewCollection(CollectionOptions{})
	vxAssert("new-ok", err == nil)
	c := ci.(*collection)
	c.Start()
	K := vxNewKey(kl)
	kb := vxKeyBytes(K)
	var layers [][]vxEnt
	var snap Snapshot
	var it Iterator
	nlay := 0
	closed := false
	check := func() {
		if snap == nil {
			return
		}
		ref := vxRefGet(K, layers[:nlay]...)
		got, gerr := snap.Get(kb, ReadOptions{})
		vxAssert("frozen-get-ok", gerr == nil)
		vxAssert("snapshot-frozen", vxGotIs(got, ref))
		ik, iv, ierr := it.Current()
		if ierr == ErrIteratorDone {
			vxAssert("iterator-frozen", vxNot(ref.live))
		} else {
			atK := vxKeyEq(vxKeyOf(ik), K)
			vxAssert("iterator-frozen", vxAnd(vxImplies(atK, vxAnd(ref.live, vxValIs(iv, ref.v))), vxImplies(ref.live, atK)))
		}
	}
	for s := 0; s < steps; s++ {
		kind := 1
		if s > 0 {
			kind = vxChoose(6)
		}
		if kind == 0 {
			break
		}
		if closed && kind != 0 {
			break
		}
		switch kind {
		case 1:
			ents := vxNewBatchEnts(1, kl, vl, vxOpsSetDel)
			vxExec(c, ents)
			layers = append(layers, ents)
		case 2:
			c.NotifyMerger("go", true)
		case 3:
			c.NotifyMerger("mergeAll", true)
		case 4:
			if snap == nil {
				snap, err = c.Snapshot()
				vxAssert("snapshot-ok", err == nil)
				it, err = snap.StartIterator(kb, nil, IteratorOptions{})
				vxAssert("iter-ok", err == nil)
				nlay = len(layers)
			}
		case 5:
			c.Close()
			closed = true
		}
		check()
	}
	if snap != nil {
		it.Close()
		snap.Close()
	}
	if !closed {
		c.Close()
	}
}
