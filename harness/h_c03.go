package moss

import "sync"

// C03: batches become visible atomically and in order under concurrency.

func init() { vxRegister("vxH_C03_atomic", vxH_C03_atomic) }

// vxH_C03_atomic: two writers on disjoint keys execute self-identifying
// batches (marker = sequence number, payload key in the top-level collection
// and in a child collection carrying the same number plus a symbolic salt)
// while a reader takes snapshots; merger (and persister when a lower level
// is configured) run. Explored over schedules with a bounded number of
// pre-emptions. Every snapshot shows, per writer, exactly the effects of a
// prefix of its batches in parent AND child; a batch whose ExecuteBatch
// returned before Snapshot was called is visible; prefixes never shrink.
func vxH_C03_atomic() {
	nbatches, nsnaps := 1, 2
	if vxTier() == 1 {
		nbatches = 2
	}
	co := CollectionOptions{MaxPreMergerBatches: 1}
	var ll *vxLL
	if vxChoose(2) == 1 {
		ll = vxNewLL(nil)
		co.LowerLevelInit = ll.snapshot()
		co.LowerLevelUpdate = ll.update
	}
	ci, err := NewCollection(co)
	vxAssert("new-ok", err == nil)
	c := ci.(*collection)
	if ll != nil {
		ll.opts = c.options
		ll.ss.options = c.options
	}
	c.Start()
	const W = 2
	var salt [W][3]uint8
	for w := 0; w < W; w++ {
		for n := 1; n <= nbatches; n++ {
			salt[w][n] = vxU8()
		}
	}
	var mu sync.Mutex
	var done [W]int // batches whose ExecuteBatch has returned
	var wg sync.WaitGroup
	for w := 0; w < W; w++ {
		wg.Add(1)
		w := w
		go func() {
			defer wg.Done()
			for n := 1; n <= nbatches; n++ {
				b, berr := c.NewBatch(2, 16)
				vxAssert("newbatch-ok", berr == nil)
				b.Set([]byte{'m', byte('0' + w)}, []byte{byte(n)})
				b.Set([]byte{'p', byte('0' + w)}, []byte{byte(n), salt[w][n]})
				cb, cerr := b.NewChildCollectionBatch("c", BatchOptions{TotalOps: 1, TotalKeyValBytes: 8})
				vxAssert("childbatch-ok", cerr == nil)
				cb.Set([]byte{'q', byte('0' + w)}, []byte{byte(n), salt[w][n]})
				vxAssert("executebatch-ok", c.ExecuteBatch(b, WriteOptions{}) == nil)
				mu.Lock()
				done[w] = n
				mu.Unlock()
			}
		}()
	}
	var last [W]int
	for s := 0; s < nsnaps; s++ {
		mu.Lock()
		lower := done
		mu.Unlock()
		snap, serr := c.Snapshot()
		vxAssert("snapshot-ok", serr == nil)
		child, cerr := snap.ChildCollectionSnapshot("c")
		vxAssert("child-snapshot-ok", cerr == nil)
		for w := 0; w < W; w++ {
			mv, merr := snap.Get([]byte{'m', byte('0' + w)}, ReadOptions{})
			vxAssert("marker-get-ok", merr == nil)
			n := 0
			if mv != nil {
				n = int(mv[0])
			}
			pv, _ := snap.Get([]byte{'p', byte('0' + w)}, ReadOptions{})
			var qv []byte
			if child != nil {
				qv, _ = child.Get([]byte{'q', byte('0' + w)}, ReadOptions{})
			}
			if n == 0 {
				vxAssert("nothing-of-an-invisible-batch", pv == nil && qv == nil)
			} else {
				vxAssert("whole-batch-visible-in-parent", pv != nil && int(pv[0]) == n && pv[1] == salt[w][n])
				vxAssert("whole-batch-visible-in-child", qv != nil && int(qv[0]) == n && qv[1] == salt[w][n])
			}
			vxAssert("returned-batch-is-visible", n >= lower[w])
			vxAssert("prefix-never-shrinks", n >= last[w])
			last[w] = n
		}
		if child != nil {
			child.Close()
		}
		snap.Close()
	}
	wg.Wait()
	c.Close()
}

func init() { vxRegister("vxH_C03_blockedWriter", vxH_C03_blockedWriter) }

// vxH_C03_blockedWriter: the top section is already full, so the writer
// blocks on back-pressure; the merger then ingests, and a reader takes
// snapshots around the writer's wake-up. A batch whose ExecuteBatch has
// returned must be visible to every later Snapshot and Get (no stale cached
// snapshot), explored over schedules.
func vxH_C03_blockedWriter() {
	ci, err := NewCollection(CollectionOptions{MaxPreMergerBatches: 1})
	vxAssert("new-ok", err == nil)
	c := ci.(*collection)
	pre := &segment{}
	pre.mutate(OperationSet, []byte{'p'}, []byte{'v'})
	c.stackDirtyTop = &segmentStack{options: c.options, refs: 1, a: []Segment{pre}, numBatches: 1}
	c.Start()
	var mu sync.Mutex
	done := false
	var wg sync.WaitGroup
	wg.Add(1)
	go func() {
		defer wg.Done()
		b, _ := c.NewBatch(1, 8)
		b.Set([]byte{'w'}, []byte{vxU8()})
		vxAssert("executebatch-ok", c.ExecuteBatch(b, WriteOptions{}) == nil)
		mu.Lock()
		done = true
		mu.Unlock()
	}()
	for s := 0; s < 3; s++ {
		mu.Lock()
		was := done
		mu.Unlock()
		snap, serr := c.Snapshot()
		vxAssert("snapshot-ok", serr == nil)
		v, _ := snap.Get([]byte{'w'}, ReadOptions{})
		g, _ := c.Get([]byte{'w'}, ReadOptions{})
		snap.Close()
		if was {
			vxAssert("returned-batch-is-visible-in-snapshot", v != nil)
			vxAssert("returned-batch-is-visible-in-get", g != nil)
		}
		vxYield()
	}
	wg.Wait()
	snap, _ := c.Snapshot()
	v, _ := snap.Get([]byte{'w'}, ReadOptions{})
	vxAssert("final-batch-visible", v != nil)
	snap.Close()
	c.Close()
}

func init() { vxRegister("vxH_C03_shapes", vxH_C03_shapes) }

// vxH_C03_shapes: a sequential history of batches of symbolic shape (only
// top-level operations, only child-collection operations, only
// grandchild-collection operations, or all of them), with a snapshot taken
// and closed before every batch so that the collection's cached latest
// snapshot is populated, and a symbolic choice of merger cycles in between.
// Once ExecuteBatch has returned, the next Snapshot shows the whole batch
// at every level it touched, and nothing else changes.
func vxH_C03_shapes() {
	steps := 2
	if vxTier() == 1 {
		steps = 3
	}
	ci, err := NewCollection(CollectionOptions{})
	vxAssert("new-ok", err == nil)
	c := ci.(*collection)
	c.Start()
	var want [3]int // last value written at top / child / grandchild; -1 = never
	var have [3]bool
	var wv [3]uint8
	_ = want
	read := func(tag string) {
		snap, serr := c.Snapshot()
		vxAssert("snapshot-ok", serr == nil)
		var got [3][]byte
		got[0], _ = snap.Get([]byte{'k'}, ReadOptions{})
		child, _ := snap.ChildCollectionSnapshot("c")
		if child != nil {
			got[1], _ = child.Get([]byte{'k'}, ReadOptions{})
			g, _ := child.ChildCollectionSnapshot("g")
			if g != nil {
				got[2], _ = g.Get([]byte{'k'}, ReadOptions{})
				g.Close()
			}
			child.Close()
		}
		snap.Close()
		for l := 0; l < 3; l++ {
			if have[l] {
				vxAssert(tag+"-returned-batch-is-visible", got[l] != nil && len(got[l]) == 1 && got[l][0] == wv[l])
			} else {
				vxAssert(tag+"-nothing-of-an-unwritten-level", got[l] == nil)
			}
		}
	}
	for s := 0; s < steps; s++ {
		read("before")
		shape := 1 + vxChoose(7) // bit 0 top, bit 1 child, bit 2 grandchild
		b, berr := c.NewBatch(1, 8)
		vxAssert("newbatch-ok", berr == nil)
		var v [3]uint8
		for l := 0; l < 3; l++ {
			v[l] = vxU8()
		}
		if shape&1 != 0 {
			b.Set([]byte{'k'}, []byte{v[0]})
		}
		if shape&6 != 0 {
			cb, cerr := b.NewChildCollectionBatch("c", BatchOptions{TotalOps: 1, TotalKeyValBytes: 8})
			vxAssert("childbatch-ok", cerr == nil)
			if shape&2 != 0 {
				cb.Set([]byte{'k'}, []byte{v[1]})
			}
			if shape&4 != 0 {
				gb, gerr := cb.NewChildCollectionBatch("g", BatchOptions{TotalOps: 1, TotalKeyValBytes: 8})
				vxAssert("grandchildbatch-ok", gerr == nil)
				gb.Set([]byte{'k'}, []byte{v[2]})
			}
		}
		vxAssert("executebatch-ok", c.ExecuteBatch(b, WriteOptions{}) == nil)
		for l := 0; l < 3; l++ {
			if shape&(1<<uint(l)) != 0 {
				have[l] = true
				wv[l] = v[l]
			}
		}
		read("after")
		switch vxChoose(3) {
		case 1:
			c.NotifyMerger("go", true)
		case 2:
			vxQuiesce()
		}
	}
	read("final")
	c.Close()
}

func init() { vxRegister("vxH_C03_deferred", vxH_C03_deferred) }

// vxH_C03_deferred: with DeferredSort, two batches that were added out of
// key order sit unsorted in the top section when the merger starts; two
// readers take snapshots meanwhile. Both batches had returned, so every
// snapshot shows the second batch completely (marker and payloads), under
// every schedule with a bounded number of pre-emptions - a reader must not
// search a segment that somebody else is still sorting.
func vxH_C03_deferred() {
	ci, err := NewCollection(CollectionOptions{DeferredSort: true})
	vxAssert("new-ok", err == nil)
	c := ci.(*collection)
	var salt [3]uint8
	for n := 1; n <= 2; n++ {
		salt[n] = vxU8()
		b, berr := c.NewBatch(3, 16)
		vxAssert("newbatch-ok", berr == nil)
		b.Set([]byte{'p'}, []byte{byte(n), salt[n]})
		b.Set([]byte{'z'}, []byte{byte(n), salt[n]})
		b.Set([]byte{'m'}, []byte{byte(n)})
		vxAssert("executebatch-ok", c.ExecuteBatch(b, WriteOptions{}) == nil)
	}
	c.Start()
	var wg sync.WaitGroup
	for r := 0; r < 2; r++ {
		wg.Add(1)
		go func() {
			defer wg.Done()
			snap, serr := c.Snapshot()
			vxAssert("snapshot-ok", serr == nil)
			mv, _ := snap.Get([]byte{'m'}, ReadOptions{})
			pv, _ := snap.Get([]byte{'p'}, ReadOptions{})
			zv, _ := snap.Get([]byte{'z'}, ReadOptions{})
			snap.Close()
			vxAssert("returned-batch-is-visible", mv != nil && mv[0] == 2)
			vxAssert("whole-batch-visible", pv != nil && pv[0] == 2 && pv[1] == salt[2] && zv != nil && zv[0] == 2 && zv[1] == salt[2])
		}()
	}
	wg.Wait()
	c.Close()
}
