package moss

import "sync"

// C03: batches become visible atomically and in order under concurrency.

func init() { vxRegister("vxH_C03_atomic", vxH_C03_atomic) }

// vxH_C03_atomic: two writers on disjoint keys execute self-identifying
// batches (marker = sequence number, payload key in the top-level collection
// and in a child collection carrying the same number plus a symbolic salt)
// while a reader takes snapshots; merger (and persister when a lower level
// is configured) run. Explored over schedules with a bounded number of
// pre-emptions. Every snapshot shows, per writer, exactly the effects of a
// prefix of its batches in parent AND child; a batch whose ExecuteBatch
// returned before Snapshot was called is visible; prefixes never shrink.
func vxH_C03_atomic() {
	nbatches, nsnaps := 1, 2
	if vxTier() == 1 {
		nbatches = 2
	}
	co := CollectionOptions{MaxPreMergerBatches: 1}
	var ll *vxLL
	if vxChoose(2) == 1 {
		ll = vxNewLL(nil)
		co.LowerLevelInit = ll.snapshot()
		co.LowerLevelUpdate = ll.update
	}
	ci, err := NewCollection(co)
	vxAssert("new-ok", err == nil)
	c := ci.(*collection)
	if ll != nil {
		ll.opts = c.options
		ll.ss.options = c.options
	}
	c.Start()
	const W = 2
	var salt [W][3]uint8
	for w := 0; w < W; w++ {
		for n := 1; n <= nbatches; n++ {
			salt[w][n] = vxU8()
		}
	}
	var mu sync.Mutex
	var done [W]int // batches whose ExecuteBatch has returned
	var wg sync.WaitGroup
	for w := 0; w < W; w++ {
		wg.Add(1)
		w := w
		go func() {
			defer wg.Done()
			for n := 1; n <= nbatches; n++ {
				b, berr := c.NewBatch(2, 16)
				vxAssert("newbatch-ok", berr == nil)
				b.Set([]byte{'m', byte('0' + w)}, []byte{byte(n)})
				b.Set([]byte{'p', byte('0' + w)}, []byte{byte(n), salt[w][n]})
				cb, cerr := b.NewChildCollectionBatch("c", BatchOptions{TotalOps: 1, TotalKeyValBytes: 8})
				vxAssert("childbatch-ok", cerr == nil)
				cb.Set([]byte{'q', byte('0' + w)}, []byte{byte(n), salt[w][n]})
				vxAssert("executebatch-ok", c.ExecuteBatch(b, WriteOptions{}) == nil)
				mu.Lock()
				done[w] = n
				mu.Unlock()
			}
		}()
	}
	var last [W]int
	for s := 0; s < nsnaps; s++ {
		mu.Lock()
		lower := done
		mu.Unlock()
		snap, serr := c.Snapshot()
		vxAssert("snapshot-ok", serr == nil)
		child, cerr := snap.ChildCollectionSnapshot("c")
		vxAssert("child-snapshot-ok", cerr == nil)
		for w := 0; w < W; w++ {
			mv, merr := snap.Get([]byte{'m', byte('0' + w)}, ReadOptions{})
			vxAssert("marker-get-ok", merr == nil)
			n := 0
			if mv != nil {
				n = int(mv[0])
			}
			pv, _ := snap.Get([]byte{'p', byte('0' + w)}, ReadOptions{})
			var qv []byte
			if child != nil {
				qv, _ = child.Get([]byte{'q', byte('0' + w)}, ReadOptions{})
			}
			if n == 0 {
				vxAssert("nothing-of-an-invisible-batch", pv == nil && qv == nil)
			} else {
				vxAssert("whole-batch-visible-in-parent", pv != nil && int(pv[0]) == n && pv[1] == salt[w][n])
				vxAssert("whole-batch-visible-in-child", qv != nil && int(qv[0]) == n && qv[1] == salt[w][n])
			}
			vxAssert("returned-batch-is-visible", n >= lower[w])
			vxAssert("prefix-never-shrinks", n >= last[w])
			last[w] = n
		}
		if child != nil {
			child.Close()
		}
		snap.Close()
	}
	wg.Wait()
	c.Close()
}

func init() { vxRegister("vxH_C03_blockedWriter", vxH_C03_blockedWriter) }

// vxH_C03_blockedWriter: the top section is already full, so the writer
// blocks on back-pressure; the merger then ingests, and a reader takes
// snapshots around the writer's wake-up. A batch whose ExecuteBatch has
// returned must be visible to every later Snapshot and Get (no stale cached
// snapshot), explored over schedules.
func vxH_C03_blockedWriter() {
	ci, err := NewCollection(CollectionOptions{MaxPreMergerBatches: 1})
	vxAssert("new-ok", err == nil)
	c := ci.(*collection)
	pre := &segment{}
	pre.mutate(OperationSet, []byte{'p'}, []byte{'v'})
	c.stackDirtyTop = &segmentStack{options: c.options, refs: 1, a: []Segment{pre}}
	c.Start()
	var mu sync.Mutex
	done := false
	var wg sync.WaitGroup
	wg.Add(1)
	go func() {
		defer wg.Done()
		b, _ := c.NewBatch(1, 8)
		b.Set([]byte{'w'}, []byte{vxU8()})
		vxAssert("executebatch-ok", c.ExecuteBatch(b, WriteOptions{}) == nil)
		mu.Lock()
		done = true
		mu.Unlock()
	}()
	for s := 0; s < 3; s++ {
		mu.Lock()
		was := done
		mu.Unlock()
		snap, serr := c.Snapshot()
		vxAssert("snapshot-ok", serr == nil)
		v, _ := snap.Get([]byte{'w'}, ReadOptions{})
		g, _ := c.Get([]byte{'w'}, ReadOptions{})
		snap.Close()
		if was {
			vxAssert("returned-batch-is-visible-in-snapshot", v != nil)
			vxAssert("returned-batch-is-visible-in-get", g != nil)
		}
		vxYield()
	}
	wg.Wait()
	snap, _ := c.Snapshot()
	v, _ := snap.Get([]byte{'w'}, ReadOptions{})
	vxAssert("final-batch-visible", v != nil)
	snap.Close()
	c.Close()
}
