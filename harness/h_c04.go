package moss

// C04: clean shutdown and reopen returns what was written.

func init() { vxRegister("vxH_C04_reopen", vxH_C04_reopen) }

func vxStoreOptions(fs *vxFS) StoreOptions {
	// CompactionBufferPages: 1 page instead of the default 512 (2 MB buffers
	// are pointless to interpret); the buffering logic is the same.
	return StoreOptions{OpenFile: fs.openFile, CompactionBufferPages: 1}
}

// vxH_C04_reopen: open a store-backed collection on an empty directory,
// execute symbolic batches, let persistence catch up, close everything and
// reopen: the reopened content equals the reference.
func vxH_C04_reopen() {
	nb, kl, vl := 2, 1, 1
	fs := vxNewFS()
	so := vxStoreOptions(fs)
	po := StorePersistOptions{CompactionConcern: CompactionConcern(vxChoose(3))}
	if vxTier() == 1 {
		nb = 3
		po.NoSync = vxChoose(2) == 1
		// the reopened segments are key-indexed or not (option wiring of C14)
		if vxChoose(2) == 1 {
			so.SegmentKeysIndexMaxBytes = 16
			so.SegmentKeysIndexMinKeyBytes = 1
		} else {
			so.SegmentKeysIndexMaxBytes = -1
		}
	}
	store, coll, err := OpenStoreCollection(fs.dir, so, po)
	vxAssert("open-ok", err == nil)
	var layers [][]vxEnt
	K := vxNewKey(kl)
	kb := vxKeyBytes(K)
	for b := 0; b < nb; b++ {
		if b > 0 && vxChoose(2) == 0 {
			break
		}
		ents := vxNewBatchEnts(1, kl, vl, vxOpsSetDel)
		vxExec(coll, ents)
		layers = append(layers, ents)
		if vxChoose(2) == 1 {
			vxQuiesce() // let merger and persister catch up between batches
		}
	}
	vxQuiesce()
	coll.(*collection).NotifyMerger("go", true)
	vxQuiesce()
	coll.Close()
	store.Close()
	vxQuiesce()

	vxObserveInt("files", len(fs.names()))
	for _, n := range fs.names() {
		vxObserveInt("size", len(fs.content(n)))
	}
	store2, coll2, err := OpenStoreCollection(fs.dir, so, po)
	vxAssert("reopen-ok", err == nil)
	snap, err := coll2.Snapshot()
	vxAssert("reopen-snapshot-ok", err == nil)
	got, err := snap.Get(kb, ReadOptions{})
	vxAssert("reopen-get-ok", err == nil)
	vxObserveBytes("reopen-get", got)
	vxAssert("reopened-content-equals-reference", vxGotIs(got, vxRefGet(K, layers...)))
	snap.Close()
	coll2.Close()
	store2.Close()
}
