package moss

// C04: clean shutdown and reopen returns what was written.

func init() { vxRegister("vxH_C04_reopen", vxH_C04_reopen) }

func vxStoreOptions(fs *vxFS) StoreOptions {
	// CompactionBufferPages: 1 page instead of the default 512 (2 MB buffers
	// are pointless to interpret); the buffering logic is the same.
	return StoreOptions{OpenFile: fs.openFile, CompactionBufferPages: 1}
}

// vxH_C04_reopen: open a store-backed collection on an empty directory,
// execute symbolic batches, let persistence catch up, close everything and
// reopen: the reopened content equals the reference.
func vxH_C04_reopen() {
	nb, kl, vl := 2, 1, 1
	fs := vxNewFS()
	so := vxStoreOptions(fs)
	po := StorePersistOptions{CompactionConcern: CompactionConcern(vxChoose(3))}
	if vxTier() == 1 {
		nb = 3
		po.NoSync = vxChoose(2) == 1
		// the reopened segments are key-indexed or not (option wiring of C14)
		if vxChoose(2) == 1 {
			so.SegmentKeysIndexMaxBytes = 16
			so.SegmentKeysIndexMinKeyBytes = 1
		} else {
			so.SegmentKeysIndexMaxBytes = -1
		}
	}
	store, coll, err := OpenStoreCollection(fs.dir, so, po)
	vxAssert("open-ok", err == nil)
	var layers [][]vxEnt
	K := vxNewKey(kl)
	kb := vxKeyBytes(K)
	for b := 0; b < nb; b++ {
		if b > 0 && vxChoose(2) == 0 {
			break
		}
		ents := vxNewBatchEnts(1, kl, vl, vxOpsSetDel)
		vxExec(coll, ents)
		layers = append(layers, ents)
		if vxChoose(2) == 1 {
			vxQuiesce() // let merger and persister catch up between batches
		}
	}
	vxQuiesce()
	coll.(*collection).NotifyMerger("go", true)
	vxQuiesce()
	coll.Close()
	store.Close()
	vxQuiesce()

	vxObserveInt("files", len(fs.names()))
	for _, n := range fs.names() {
		vxObserveInt("size", len(fs.content(n)))
	}
	store2, coll2, err := OpenStoreCollection(fs.dir, so, po)
	vxAssert("reopen-ok", err == nil)
	snap, err := coll2.Snapshot()
	vxAssert("reopen-snapshot-ok", err == nil)
	got, err := snap.Get(kb, ReadOptions{})
	vxAssert("reopen-get-ok", err == nil)
	vxObserveBytes("reopen-get", got)
	vxAssert("reopened-content-equals-reference", vxGotIs(got, vxRefGet(K, layers...)))
	snap.Close()
	coll2.Close()
	store2.Close()
}

func init() { vxRegister("vxH_C04_sessions", vxH_C04_sessions) }

// vxH_C04_sessions: two sessions on the same directory, each followed by a
// clean close and a reopen. A session executes batches of symbolic shape on
// the top-level collection and a child collection (write, delete the child
// together with a parent write, recreate it), the first session optionally
// starts with a big round so that later rounds are compacted partially
// under CompactionAllow. After every reopen the store's snapshot and the
// collection equal the reference tree (parent, child, child existence), and
// the directory still holds the data file.
func vxH_C04_sessions() {
	fs := vxNewFS()
	so := vxStoreOptions(fs)
	so.CompactionLevelMaxSegments = 1
	so.CompactionLevelMultiplier = 2
	so.CompactionPercentage = -1
	po := StorePersistOptions{CompactionConcern: CompactionConcern(vxChoose(3))}
	so.CollectionOptions.OnError = func(err error) {
		vxAssert("no-persistence-error: "+err.Error(), false)
	}
	ref := vxNewNode()
	names := []string{"a"}
	none := map[string]bool{}
	var K, J vxKey
	K.n, J.n = 1, 1
	K.b[0], J.b[0] = 'k', 'j'
	kb, jb := vxKeyBytes(K), vxKeyBytes(J)
	big := vxChoose(2) == 1
	wrote := big
	thorough := vxTier() == 1
	for session := 0; session < 2; session++ {
		store, coll, err := OpenStoreCollection(fs.dir, so, po)
		vxAssert("open-ok", err == nil)
		if session > 0 {
			ss, serr := store.Snapshot()
			vxAssert("store-snapshot-ok", serr == nil)
			vxCheckTree("reopened-store", ss, ref, K, kb, names, none)
			vxCheckTree("reopened-store2", ss, ref, J, jb, names, none)
			ss.Close()
			cs, cerr := coll.Snapshot()
			vxAssert("coll-snapshot-ok", cerr == nil)
			vxCheckTree("reopened-coll", cs, ref, K, kb, names, none)
			cs.Close()
		}
		if session == 0 && big {
			b, berr := coll.NewBatch(8, 64)
			vxAssert("newbatch-ok", berr == nil)
			var ents []vxEnt
			for _, c := range []byte{'a', 'b', 'c', 'd'} {
				var e vxEnt
				e.op = OperationSet
				e.k.n, e.k.b[0] = 1, c
				e.v.n, e.v.b[0] = 1, vxU8()
				ents = append(ents, e)
			}
			vxFillBatch(b, ents)
			ref.layers = append(ref.layers, ents)
			vxAssert("executebatch-ok", coll.ExecuteBatch(b, WriteOptions{}) == nil)
			b.Close()
			vxDrain(coll)
		}
		for n := 0; n < 2; n++ {
			if !thorough && session == 0 && n > 0 {
				break // quick: one batch in the first session
			}
			shape := vxChoose(4) // 0 stop, 1 parent write, 2 child write, 3 child delete + parent write
			if shape == 0 {
				break
			}
			b, berr := coll.NewBatch(4, 64)
			vxAssert("newbatch-ok", berr == nil)
			if shape == 1 || shape == 3 {
				ents := vxFixedSet()
				vxFillBatch(b, ents)
				ref.layers = append(ref.layers, ents)
			}
			if shape == 2 {
				cb, cerr := b.NewChildCollectionBatch("a", BatchOptions{TotalOps: 2, TotalKeyValBytes: 16})
				vxAssert("childbatch-ok", cerr == nil)
				var ents []vxEnt
				if thorough {
					ents = vxFixedEnt() // key k or j, Set or Del
				} else {
					// quick: key k in the first session, key j in the
					// second, so that an entry of an earlier incarnation
					// of the child cannot hide behind a newer write
					ents = vxFixedSet()
					if session == 1 {
						ents[0].k.b[0] = 'j'
					}
					if vxChoose(2) == 1 {
						ents[0].op = OperationDel
						ents[0].v.n = 0
					}
				}
				vxFillBatch(cb, ents)
				if ref.kids["a"] == nil {
					ref.kids["a"] = vxNewNode()
				}
				ref.kids["a"].layers = append(ref.kids["a"].layers, ents)
			}
			if shape == 3 {
				vxAssert("delchild-ok", b.DelChildCollection("a") == nil)
				delete(ref.kids, "a")
			}
			vxAssert("executebatch-ok", coll.ExecuteBatch(b, WriteOptions{}) == nil)
			b.Close()
			wrote = true
			// the first session persists every batch as its own round;
			// the second also lets batches share a round
			if session == 0 || vxChoose(2) == 1 {
				vxDrain(coll)
			}
		}
		vxDrain(coll)
		vxObserveU64("partial-compactions", store.totCompactionsPartial)
		coll.Close()
		store.Close()
		vxQuiesce()
		vxObserveInt("files-left", len(fs.names()))
		if wrote {
			vxAssert("data-file-kept-after-close", len(fs.names()) >= 1)
		}
	}
	store, coll, err := OpenStoreCollection(fs.dir, so, po)
	vxAssert("final-open-ok", err == nil)
	ss, serr := store.Snapshot()
	vxAssert("store-snapshot-ok", serr == nil)
	vxCheckTree("final-store", ss, ref, K, kb, names, none)
	vxCheckTree("final-store2", ss, ref, J, jb, names, none)
	ss.Close()
	cs, cerr := coll.Snapshot()
	vxAssert("coll-snapshot-ok", cerr == nil)
	vxCheckTree("final-coll", cs, ref, K, kb, names, none)
	vxCheckTree("final-coll2", cs, ref, J, jb, names, none)
	cs.Close()
	coll.Close()
	store.Close()
}

func init() { vxRegister("vxH_C04_reopenRace", vxH_C04_reopenRace) }

// vxH_C04_reopenRace: a full compaction supersedes the first data file
// while a store snapshot still holds it; snapshot, collection and store are
// closed, which schedules the asynchronous removal of that file, and the
// directory is reopened right away - the removal goroutine runs at an
// arbitrary point of the reopen (schedules with a bounded number of
// pre-emptions). The reopen succeeds and returns the persisted content.
func vxH_C04_reopenRace() {
	fs := vxNewFS()
	so := vxStoreOptions(fs)
	po := StorePersistOptions{CompactionConcern: CompactionForce}
	store, coll, err := OpenStoreCollection(fs.dir, so, po)
	vxAssert("open-ok", err == nil)
	var layers [][]vxEnt
	var K vxKey
	K.n = 1
	K.b[0] = 'k'
	var held Snapshot
	for r := 0; r < 2; r++ {
		ents := vxFixedSet()
		vxExec(coll, ents)
		layers = append(layers, ents)
		vxDrain(coll)
		if r == 0 {
			ss, serr := store.Snapshot()
			vxAssert("store-snapshot-ok", serr == nil)
			held = ss // held across the compaction of the next round
		}
	}
	vxObserveInt("files-before-close", len(fs.names()))
	held.Close()
	coll.Close()
	store.Close()
	// no quiesce: the removal of the superseded file may still be pending
	store2, coll2, err2 := OpenStoreCollection(fs.dir, so, po)
	vxAssert("reopen-ok", err2 == nil)
	if err2 != nil {
		return
	}
	got, gerr := coll2.Get(vxKeyBytes(K), ReadOptions{})
	vxAssert("reopen-get-ok", gerr == nil)
	vxAssert("reopened-content-equals-reference", vxGotIs(got, vxRefGet(K, layers...)))
	coll2.Close()
	store2.Close()
	vxQuiesce()
}
