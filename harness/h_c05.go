package moss

// C05: a crash at any point leaves a readable, prefix-consistent store.

func init() {
	vxRegister("vxH_C05_scanner", vxH_C05_scanner)
	vxRegister("vxH_C05_crashImage", vxH_C05_crashImage)
}

// vxH_C05_scanner: a file with two valid persistence rounds is extended by
// what a crash may leave after the last footer: a torn copy of the next
// footer (cut at a symbolic position), zero padding, or bytes of which the
// first 24 are fully symbolic (user data that may resemble the magic). The
// real openStore / ReadFooter / ScanFooter must come back with the last
// valid footer: never an error, never a panic.
func vxH_C05_scanner() {
	kl, vl := 1, 1
	fs := vxNewFS()
	so := vxStoreOptions(fs)
	layers := vxPopulate(fs, so, StorePersistOptions{}, 2, kl, vl, vxOpsSet)
	name := fs.names()[0]
	good := fs.content(name)
	// the last footer of the good file
	footPos := (len(good) - 1) / StorePageSize * StorePageSize
	foot := good[footPos:]
	tailPos := footPos + StorePageSize // next page boundary
	img := make([]byte, tailPos)
	copy(img, good)
	switch vxChoose(5) {
	case 4: // a newer footer whose first and last bytes reached the disk but not all of the middle
		nf := make([]byte, len(foot))
		copy(nf, foot)
		content := len(foot) - footerBegLen - footerEndLen
		switch vxChoose(4) {
		case 0, 1: // the JSON is damaged (sector-sized tear; a page-sized one for footers of 3+ pages)
			var tp [8]byte
			StoreEndian.PutUint64(tp[:], uint64(tailPos))
			copy(nf[footerBegLen+content:], tp[:])
			from := footerBegLen + 3
			if vxChoose(2) == 1 {
				from = footerBegLen + content/2
			}
			for i := from; i < from+8 && i < footerBegLen+content; i++ {
				nf[i] = 0
			}
		case 2: // the offset recorded at the end does not match the position
		case 3: // the length recorded at the end does not match the one at the beginning
			var tp [8]byte
			StoreEndian.PutUint64(tp[:], uint64(tailPos))
			copy(nf[footerBegLen+content:], tp[:])
			nf[footerBegLen+content+8]++
		}
		img = append(img, nf...)
	case 0: // torn copy of a footer: only its first n bytes made it
		cuts := []int{1, 6, 12, 20, 22, 30, len(foot) - 13, len(foot) - 1}
		n := cuts[vxChoose(len(cuts))]
		img = append(img, foot[:n]...)
	case 1: // zero padding of symbolic (small) length
		pads := []int{1, 21, 22, 4096}
		img = append(img, make([]byte, pads[vxChoose(len(pads))])...)
	case 2: // symbolic bytes
		img = append(img, vxBytes(24)...)
		img = append(img, make([]byte, 40)...)
	case 3: // the good file cut inside its last footer (un-synced tail lost)
		cuts := []int{1, 12, 22, len(foot) - 1}
		img = img[:footPos+cuts[vxChoose(len(cuts))]]
		layers = layers[:1]
	}
	fs2 := vxNewFS()
	fs2.addFile(name, img)
	so2 := vxStoreOptions(fs2)
	store, coll, err := OpenStoreCollection(fs2.dir, so2, StorePersistOptions{})
	vxAssert("reopen-after-crash-succeeds", err == nil)
	if err != nil {
		return
	}
	K := vxNewKey(kl)
	got, gerr := coll.Get(vxKeyBytes(K), ReadOptions{})
	vxAssert("get-ok", gerr == nil)
	vxObserveBytes("get", got)
	vxAssert("content-is-last-complete-round", vxGotIs(got, vxRefGet(K, layers...)))
	coll.Close()
	store.Close()
}

// vxApplyLog rebuilds a directory image from the first n operations of a
// recorded file-operation log. Writes that were not followed by a Sync of
// their file within the prefix are "un-synced": each is applied fully, not
// at all, or torn (a prefix of it), chosen symbolically.
func vxApplyLog(log []vxFSOp, n int, syncEnabled bool) *vxFS {
	img := vxNewFS()
	type fileState struct{ data []byte }
	files := map[string]*fileState{}
	var order []string
	synced := func(i int) bool {
		if !syncEnabled {
			return false
		}
		for j := i + 1; j < n && j < len(log); j++ {
			if log[j].kind == "sync" && log[j].name == log[i].name {
				return true
			}
		}
		return false
	}
	for i := 0; i < n && i < len(log); i++ {
		op := log[i]
		switch op.kind {
		case "create":
			files[op.name] = &fileState{}
			order = append(order, op.name)
		case "remove":
			delete(files, op.name)
		case "truncate":
			if f := files[op.name]; f != nil {
				nd := make([]byte, op.size)
				copy(nd, f.data)
				f.data = nd
			}
		case "write":
			f := files[op.name]
			if f == nil {
				continue
			}
			if len(op.data) == 0 {
				continue // a zero-length write changes nothing, not even the size
			}
			data := op.data
			last := i == n-1
			if !synced(i) {
				mode := 0
				if last || syncEnabled {
					mode = vxChoose(3)
				}
				if mode == 1 {
					continue // the write never reached the disk
				}
				if mode == 2 && len(data) > 1 {
					cuts := []int{1, len(data) / 2, len(data) - 1}
					data = data[:cuts[vxChoose(len(cuts))]]
				}
			}
			end := int(op.off) + len(data)
			if end > len(f.data) {
				nd := make([]byte, end)
				copy(nd, f.data)
				f.data = nd
			}
			copy(f.data[op.off:], data)
		}
	}
	for _, nme := range order {
		if f := files[nme]; f != nil {
			img.addFile(nme, f.data)
		}
	}
	return img
}

// vxH_C05_crashImage: record the file operations of a workload (two
// persistence rounds, the second with a symbolic compaction concern), stop
// at a symbolic operation index, rebuild what the crash model allows, and
// reopen: the open must succeed and expose the content after a prefix of
// the batches, at least the rounds whose final Sync lies before the crash.
func vxH_C05_crashImage() {
	kl, vl := 1, 1
	fs := vxNewFS()
	fs.record = true
	so := vxStoreOptions(fs)
	so.CompactionLevelMaxSegments = 1
	so.CompactionPercentage = -1
	noSync := vxChoose(2) == 1
	inChild := vxChoose(2) == 1
	store, err := OpenStore(fs.dir, so)
	vxAssert("open-ok", err == nil)
	opts := &so.CollectionOptions
	var K vxKey
	K.n = 1
	K.b[0] = 'k'
	kb := vxKeyBytes(K)
	mk := func() []vxEnt {
		var e vxEnt
		e.k = K
		e.op = OperationSet
		e.v.n = 1
		e.v.b[0] = vxU8()
		return []vxEnt{e}
	}
	_ = kl
	_ = vl
	var layers [][]vxEnt
	var doneAt []int // log length when round r had completed
	lastConcern := CompactionDisable
	for r := 0; r < 2; r++ {
		ents := mk()
		po := StorePersistOptions{NoSync: noSync}
		if r == 1 {
			po.CompactionConcern = CompactionConcern(vxChoose(3))
			lastConcern = po.CompactionConcern
		}
		higher := vxHigher(opts, ents)
		if inChild {
			// all data lives in a child collection; the top-level
			// collection never gets a segment
			cs := higher
			cs.incarNum = 1
			higher = &segmentStack{options: opts, refs: 1, childSegStacks: map[string]*segmentStack{"c": cs}}
		}
		s, perr := store.Persist(higher, po)
		vxAssert("persist-ok", perr == nil)
		s.Close()
		vxQuiesce()
		layers = append(layers, ents)
		doneAt = append(doneAt, len(fs.log))
	}
	// optionally revert to the previous round: a completed SnapshotRevert
	// is durable
	reverted := false
	revertDoneAt := 0
	if lastConcern == CompactionDisable && !inChild && vxChoose(2) == 1 {
		cur, _ := store.Snapshot()
		prev, perr := store.SnapshotPrevious(cur)
		vxAssert("previous-ok", perr == nil && prev != nil)
		if prev != nil {
			vxAssert("revert-ok", store.SnapshotRevert(prev) == nil)
			prev.Close()
			reverted = true
			revertDoneAt = len(fs.log)
		}
		cur.Close()
	}
	store.Close()
	vxQuiesce()
	log := fs.log
	// values of the two rounds must differ to tell the prefixes apart
	vxAssume(layers[0][0].v.b[0] != layers[1][0].v.b[0])
	// n-1 operations had returned, operation n-1 (0-based) was in progress;
	// n = len(log)+1: everything had returned
	n := 1 + vxChoose(len(log)+1)
	vxObserveInt("crash-index", n)
	img := vxApplyLog(log, n, !noSync)
	so2 := vxStoreOptions(img)
	store2, coll2, oerr := OpenStoreCollection(img.dir, so2, StorePersistOptions{})
	// known finding: when the crash happens before the very first round
	// completed, the only data file has no valid footer (or no complete
	// header) and OpenStore reports "could not open/parse any file"
	// instead of opening an empty store.
	vxAssertK("reopen-after-crash-succeeds", oerr == nil, "C05-first-round-incomplete-open-fails", n <= doneAt[0])
	if oerr != nil {
		return
	}
	var got []byte
	var gerr error
	if inChild {
		snap2, _ := coll2.Snapshot()
		if cs, _ := snap2.ChildCollectionSnapshot("c"); cs != nil {
			got, gerr = cs.Get(kb, ReadOptions{})
			cs.Close()
		}
		snap2.Close()
	} else {
		got, gerr = coll2.Get(kb, ReadOptions{})
	}
	vxAssert("get-ok", gerr == nil)
	vxObserveBytes("get", got)
	is0 := vxGotIs(got, vxRefGet(K))
	is1 := vxGotIs(got, vxRefGet(K, layers[:1]...))
	is2 := vxGotIs(got, vxRefGet(K, layers...))
	vxAssert("content-is-a-batch-prefix", vxOr(is0, vxOr(is1, is2)))
	if !noSync {
		// operation n-1 was in progress at the crash; everything before it
		// had returned
		if reverted && n > revertDoneAt {
			vxAssert("completed-revert-is-durable", is1)
		} else if n > doneAt[1] {
			vxAssert("completed-synced-round-2-survives", vxOr(is2, vxAnd(reverted, is1)))
		} else if n > doneAt[0] {
			vxAssert("completed-synced-round-1-survives", vxOr(is1, is2))
		}
	}
	coll2.Close()
	store2.Close()
}
