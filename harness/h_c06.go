package moss

// C06: I/O failures never publish corrupt state or lose data.

func init() { vxRegister("vxH_C06_persistFault", vxH_C06_persistFault) }

// vxHigher wraps ents as the "higher" snapshot handed to Store.Persist.
func vxHigher(opts *CollectionOptions, ents []vxEnt) *segmentStack {
	seg, _ := newSegment(len(ents), len(ents)*vxStride)
	for _, e := range ents { // ents are sorted (vxNewEnts)
		seg.mutate(e.op, vxKeyBytes(e.k), vxValBytes(e.v))
	}
	return &segmentStack{options: opts, refs: 1, a: []Segment{seg}}
}

// vxH_C06_persistFault: one fault-free persistence round, then one round
// (plain append, level compaction or forced compaction) during which a
// symbolic window of file operations fails (error or short write). If the
// round reports success, store snapshot and reopen contain its batch; if it
// reports an error, the store still exposes the previous content, the
// previous data file is still there, and a following fault-free round
// catches up.
func vxH_C06_persistFault() {
	kl, vl := 1, 1
	fs := vxNewFS()
	so := vxStoreOptions(fs)
	so.CompactionLevelMaxSegments = 1
	so.CompactionLevelMultiplier = 2
	so.CompactionPercentage = -1
	store, err := OpenStore(fs.dir, so)
	vxAssert("open-ok", err == nil)
	opts := &so.CollectionOptions
	K := vxNewKey(kl)
	kb := vxKeyBytes(K)

	// history before the faulty round: one small round, or a big round
	// followed by a small one (so that a level-based PARTIAL compaction
	// into the same file is reachable with CompactionAllow)
	var old [][]vxEnt
	bigHistory := vxChoose(2) == 1
	fixed := func(kb byte, alphabet int) []vxEnt {
		var e vxEnt
		e.k.n, e.k.b[0] = 1, kb
		e.op = vxNewOp(alphabet)
		e.v.b[0] = vxU8()
		e.v.n = vxIteInt(e.op == OperationDel, 0, 1)
		return []vxEnt{e}
	}
	if bigHistory {
		K.n, K.b[0] = 1, 'a' // fixed probe: the second round rewrites "a"
		kb = vxKeyBytes(K)
		var big []vxEnt
		for _, kb := range []byte{'a', 'b', 'c', 'd'} {
			var e vxEnt
			e.op = OperationSet
			e.k.n, e.k.b[0] = 1, kb
			e.v.n, e.v.b[0] = 1, vxU8()
			big = append(big, e)
		}
		s0, err0 := store.Persist(vxHigher(opts, big), StorePersistOptions{})
		vxAssert("big-round-ok", err0 == nil)
		s0.Close()
		old = append(old, big)
	}
	first := vxNewEnts(1, kl, vl, vxOpsSet)
	if bigHistory {
		first = fixed('e', vxOpsSet)
	}
	s1, err := store.Persist(vxHigher(opts, first), StorePersistOptions{})
	vxAssert("first-round-ok", err == nil)
	s1.Close()
	old = append(old, first)
	before := fs.names()

	second := vxNewEnts(1, kl, vl, vxOpsSetDel)
	if bigHistory {
		second = fixed('a', vxOpsSetDel)
	}
	po := StorePersistOptions{CompactionConcern: CompactionConcern(vxChoose(3))}
	// optionally the faulty round also writes a child collection
	var childEnt []vxEnt
	if bigHistory && vxChoose(2) == 1 {
		// (only with the fixed-key history: symbolic keys make every
		// additional segment expensive)
		childEnt = fixed('c', vxOpsSet)
	}
	mkSecond := func() *segmentStack {
		h := vxHigher(opts, second)
		if childEnt != nil {
			cs := vxHigher(opts, childEnt)
			cs.incarNum = 1
			h.childSegStacks = map[string]*segmentStack{"c": cs}
		}
		return h
	}
	childOK := func(tag string, snap Snapshot) {
		if childEnt == nil {
			return
		}
		var CK vxKey
		CK.n, CK.b[0] = 1, 'c'
		var cgot []byte
		if cs, _ := snap.ChildCollectionSnapshot("c"); cs != nil {
			cgot, _ = cs.Get([]byte{'c'}, ReadOptions{})
			cs.Close()
		}
		vxAssert(tag+"-contains-the-child-batch", vxGotIs(cgot, vxRefGet(CK, childEnt)))
	}
	// fault window
	fs.nops = 0
	fs.failAt = vxChoose(16)
	fs.failN = 1
	if vxTier() == 1 {
		fs.failN = 1 + vxChoose(2)
	}
	if vxChoose(2) == 1 {
		fs.shortLen = 1 // a failing write writes 1 byte and reports no error
	}
	s2, perr := store.Persist(mkSecond(), po)
	vxQuiesce()
	fired := fs.faulted > 0
	fs.failAt = -1
	vxObserveInt("fault-fired", fs.faulted)

	var all [][]vxEnt
	all = append(all, old...)
	all = append(all, second)
	cur, serr := store.Snapshot()
	vxAssert("store-snapshot-ok", serr == nil)
	got, gerr := cur.Get(kb, ReadOptions{})
	vxObserveU64("partial-compactions", store.totCompactionsPartial)
	if perr == nil {
		vxReach("round-succeeded")
		vxAssert("success-get-ok", gerr == nil)
		vxObserveBytes("after-success", got)
		vxAssert("reported-success-contains-the-batch", vxGotIs(got, vxRefGet(K, all...)))
		childOK("reported-success", cur)
		s2.Close()
	} else {
		vxReach("round-failed")
		vxAssert("failure-only-with-fault", fired)
		vxAssert("failure-get-ok", gerr == nil)
		vxAssert("failed-round-keeps-previous-content", vxGotIs(got, vxRefGet(K, old...)))
		for _, n := range before {
			found := false
			for _, m := range fs.names() {
				if m == n {
					found = true
				}
			}
			vxAssert("failed-round-keeps-previous-file", found)
		}
		// operations succeed again: persistence catches up
		// (with the same concern, or by plain appending to the old file)
		rpo := po
		if bigHistory && vxChoose(2) == 1 {
			rpo = StorePersistOptions{}
		}
		s3, rerr := store.Persist(mkSecond(), rpo)
		vxAssert("retry-ok", rerr == nil)
		vxQuiesce()
		if rerr == nil {
			g3, g3err := s3.Get(kb, ReadOptions{})
			vxAssert("retry-get-ok", g3err == nil)
			vxAssert("retry-catches-up", vxGotIs(g3, vxRefGet(K, all...)))
			childOK("retry", s3)
			s3.Close()
		}
	}
	// one more appended round: whatever the failed round left behind must
	// not be preferred to the file that has this round
	var third []vxEnt
	if bigHistory {
		third = fixed('q', vxOpsSet)
		h4 := vxHigher(opts, third)
		if childEnt != nil {
			// a higher snapshot lists every live child collection (one that
			// is missing counts as deleted), here without new segments
			h4.childSegStacks = map[string]*segmentStack{"c": {options: opts, refs: 1, incarNum: 1}}
		}
		s4, terr := store.Persist(h4, StorePersistOptions{})
		vxAssert("later-round-ok", terr == nil)
		if terr == nil {
			s4.Close()
		}
		all = append(all, third)
	}
	cur.Close()
	store.Close()
	vxQuiesce()
	// what a reopen sees is what the store exposed
	store2, oerr := OpenStore(fs.dir, so)
	vxAssert("reopen-ok", oerr == nil)
	if oerr == nil {
		rs, _ := store2.Snapshot()
		rgot, rgerr := rs.Get(kb, ReadOptions{})
		vxAssert("reopen-get-ok", rgerr == nil)
		vxObserveBytes("reopen", rgot)
		vxAssert("reopen-contains-everything-reported", vxGotIs(rgot, vxRefGet(K, all...)))
		childOK("reopen", rs)
		if third != nil {
			var QK vxKey
			QK.n, QK.b[0] = 1, 'q'
			qgot, _ := rs.Get([]byte{'q'}, ReadOptions{})
			vxAssert("reopen-contains-the-later-round", vxGotIs(qgot, vxRefGet(QK, third)))
		}
		rs.Close()
		store2.Close()
	}
}
