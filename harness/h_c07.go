package moss

// C07: compaction never changes content and reclaims garbage.

func init() {
	vxRegister("vxH_C07_rounds", vxH_C07_rounds)
}

// vxH_C07_rounds: a store-backed collection with one child collection goes
// through r persistence rounds (each: one batch touching parent and/or
// child, then drain) under a symbolic compaction concern and level
// configuration; after every round the store's own snapshot and the
// collection equal the reference for parent and child. After a forced
// (full) compaction round the store holds at most one segment per
// collection and no deletion markers; at the end only one data file is
// left once everything is closed.
func vxH_C07_rounds() {
	rounds := 2
	if vxTier() == 1 {
		rounds = 3
	}
	fs := vxNewFS()
	so := vxStoreOptions(fs)
	so.CompactionLevelMaxSegments = 1 + vxChoose(2)
	so.CompactionLevelMultiplier = 2
	so.CompactionPercentage = -1 // never judge by fragmentation (float policy branch, concrete only)
	po := StorePersistOptions{CompactionConcern: CompactionConcern(vxChoose(3))}
	so.CollectionOptions.OnError = func(err error) {
		vxAssert("no-persistence-error: "+err.Error(), false)
	}
	store, coll, err := OpenStoreCollection(fs.dir, so, po)
	vxAssert("open-ok", err == nil)
	ref := vxNewNode()
	names := []string{"a"}
	none := map[string]bool{}
	var K, J vxKey
	K.n, J.n = 1, 1
	K.b[0], J.b[0] = 'k', 'j'
	kb, jb := vxKeyBytes(K), vxKeyBytes(J)
	// optionally a big first round, so that later rounds are compacted
	// PARTIALLY (splice point > 0) under CompactionAllow
	if vxChoose(2) == 1 {
		rounds++
		b, berr := coll.NewBatch(8, 64)
		vxAssert("newbatch-ok", berr == nil)
		var big []vxEnt
		for _, kb := range []byte{'a', 'b', 'c', 'd'} {
			var e vxEnt
			e.op = OperationSet
			e.k.n, e.k.b[0] = 1, kb
			e.v.n, e.v.b[0] = 1, vxU8()
			big = append(big, e)
		}
		vxFillBatch(b, big)
		ref.layers = append(ref.layers, big)
		if vxChoose(2) == 1 {
			cb, cerr := b.NewChildCollectionBatch("a", BatchOptions{TotalOps: 2, TotalKeyValBytes: 16})
			vxAssert("childbatch-ok", cerr == nil)
			cents := vxFixedSet()
			vxFillBatch(cb, cents)
			ref.kids["a"] = vxNewNode()
			ref.kids["a"].layers = append(ref.kids["a"].layers, cents)
		}
		vxAssert("executebatch-ok", coll.ExecuteBatch(b, WriteOptions{}) == nil)
		b.Close()
		vxDrain(coll)
		rounds--
	}
	for r := 0; r < rounds; r++ {
		b, berr := coll.NewBatch(4, 64)
		vxAssert("newbatch-ok", berr == nil)
		shape := vxChoose(3) // 0: parent only, 1: child only, 2: both
		if shape != 1 {
			ents := vxFixedEnt()
			vxFillBatch(b, ents)
			ref.layers = append(ref.layers, ents)
		}
		if shape != 0 {
			cb, cerr := b.NewChildCollectionBatch("a", BatchOptions{TotalOps: 2, TotalKeyValBytes: 16})
			vxAssert("childbatch-ok", cerr == nil)
			ents := vxFixedEnt()
			vxFillBatch(cb, ents)
			if ref.kids["a"] == nil {
				ref.kids["a"] = vxNewNode()
			}
			ref.kids["a"].layers = append(ref.kids["a"].layers, ents)
		}
		vxAssert("executebatch-ok", coll.ExecuteBatch(b, WriteOptions{}) == nil)
		b.Close()
		vxDrain(coll)

		ss, serr := store.Snapshot()
		vxAssert("store-snapshot-ok", serr == nil)
		vxCheckTree("store", ss, ref, K, kb, names, none)
		vxCheckTree("store2", ss, ref, J, jb, names, none)
		if po.CompactionConcern == CompactionForce {
			f := ss.(*Footer)
			vxAssert("full-compaction-one-segment", len(f.SegmentLocs) <= 1)
			for _, sl := range f.SegmentLocs {
				vxAssert("full-compaction-no-deletions", sl.TotOpsDel == 0)
			}
			for _, cf := range f.ChildFooters {
				vxAssert("full-compaction-one-child-segment", len(cf.SegmentLocs) <= 1)
				for _, sl := range cf.SegmentLocs {
					vxAssert("full-compaction-no-child-deletions", sl.TotOpsDel == 0)
				}
			}
		}
		vxObserveU64("partial-compactions", store.totCompactionsPartial)
		ss.Close()
		cs, cerr := coll.Snapshot()
		vxAssert("coll-snapshot-ok", cerr == nil)
		vxCheckTree("coll", cs, ref, K, kb, names, none)
		vxCheckTree("coll2", cs, ref, J, jb, names, none)
		cs.Close()
	}
	coll.Close()
	store.Close()
	vxQuiesce()
	vxObserveInt("files-left", len(fs.names()))
	// known finding: mappings/files referenced by child collection footers
	// are never released, so a superseded file that held child segments
	// is never closed and never removed.
	vxAssertK("superseded-files-removed", len(fs.names()) <= 1, "C15-child-footer-never-released", len(ref.kids) > 0)
	// the known finding excuses a file too many, never a file too few
	vxAssert("current-data-file-kept", len(fs.names()) >= 1)
	// and what is left reopens to the same content
	store2, coll2, err2 := OpenStoreCollection(fs.dir, so, po)
	vxAssert("reopen-ok", err2 == nil)
	cs2, cerr2 := coll2.Snapshot()
	vxAssert("reopen-snapshot-ok", cerr2 == nil)
	vxCheckTree("reopened", cs2, ref, K, kb, names, none)
	cs2.Close()
	coll2.Close()
	store2.Close()
}

func init() { vxRegister("vxH_C07_recreate", vxH_C07_recreate) }

// vxH_C07_recreate: a persisted child collection is deleted and created
// again under the same name (writing another key) before - or after - the
// next persistence round, which compacts according to a symbolic concern;
// one more round follows. After every round, and after a clean close and
// reopen, the store's snapshot and the collection equal the reference:
// nothing of the deleted incarnation comes back.
func vxH_C07_recreate() {
	fs := vxNewFS()
	so := vxStoreOptions(fs)
	so.CompactionLevelMaxSegments = 1
	so.CompactionLevelMultiplier = 2
	so.CompactionPercentage = -1
	po := StorePersistOptions{CompactionConcern: CompactionConcern(vxChoose(3))}
	so.CollectionOptions.OnError = func(err error) {
		vxAssert("no-persistence-error: "+err.Error(), false)
	}
	store, coll, err := OpenStoreCollection(fs.dir, so, po)
	vxAssert("open-ok", err == nil)
	ref := vxNewNode()
	names := []string{"a"}
	none := map[string]bool{}
	var K, J vxKey
	K.n, J.n = 1, 1
	K.b[0], J.b[0] = 'k', 'j'
	kb, jb := vxKeyBytes(K), vxKeyBytes(J)
	exec := func(parent bool, child int, key byte) { // child: 0 none, 1 write, 2 delete
		b, berr := coll.NewBatch(4, 64)
		vxAssert("newbatch-ok", berr == nil)
		if parent {
			ents := vxFixedSet()
			vxFillBatch(b, ents)
			ref.layers = append(ref.layers, ents)
		}
		switch child {
		case 1:
			cb, cerr := b.NewChildCollectionBatch("a", BatchOptions{TotalOps: 2, TotalKeyValBytes: 16})
			vxAssert("childbatch-ok", cerr == nil)
			ents := vxFixedSet()
			ents[0].k.b[0] = key
			vxFillBatch(cb, ents)
			if ref.kids["a"] == nil {
				ref.kids["a"] = vxNewNode()
			}
			ref.kids["a"].layers = append(ref.kids["a"].layers, ents)
		case 2:
			vxAssert("delchild-ok", b.DelChildCollection("a") == nil)
			delete(ref.kids, "a")
		}
		vxAssert("executebatch-ok", coll.ExecuteBatch(b, WriteOptions{}) == nil)
		b.Close()
	}
	check := func(tag string) {
		ss, serr := store.Snapshot()
		vxAssert("store-snapshot-ok", serr == nil)
		vxCheckTree(tag+"-store", ss, ref, K, kb, names, none)
		vxCheckTree(tag+"-store2", ss, ref, J, jb, names, none)
		ss.Close()
		cs, cerr := coll.Snapshot()
		vxAssert("coll-snapshot-ok", cerr == nil)
		vxCheckTree(tag+"-coll", cs, ref, K, kb, names, none)
		vxCheckTree(tag+"-coll2", cs, ref, J, jb, names, none)
		cs.Close()
	}
	exec(vxChoose(2) == 1, 1, 'k')
	vxDrain(coll)
	check("first")
	exec(true, 2, 0) // the deletion travels with a parent write (see C11-child-delete-alone-not-persisted)
	if vxChoose(2) == 1 {
		vxDrain(coll)
	}
	exec(false, 1, 'j') // the child is created again
	vxDrain(coll)
	check("recreated")
	exec(true, vxChoose(2), 'k')
	vxDrain(coll)
	check("later")
	coll.Close()
	store.Close()
	vxQuiesce()
	store, coll, err = OpenStoreCollection(fs.dir, so, po)
	vxAssert("reopen-ok", err == nil)
	check("reopened")
	coll.Close()
	store.Close()
}

func init() { vxRegister("vxH_C07_compactNow", vxH_C07_compactNow) }

// vxH_C07_compactNow: Store.Persist(nil, CompactionForce) - "the higher
// snapshot may be nil" - compacts what is already persisted, here after
// rounds that wrote the top level and/or a child collection, while the
// collection is quiescent or already closed. The store's snapshot equals
// the reference before and after, also after a reopen.
func vxH_C07_compactNow() {
	fs := vxNewFS()
	so := vxStoreOptions(fs)
	so.CompactionLevelMaxSegments = 1
	so.CompactionPercentage = -1
	po := StorePersistOptions{CompactionConcern: CompactionConcern(vxChoose(2))} // rounds: disable or allow
	store, coll, err := OpenStoreCollection(fs.dir, so, po)
	vxAssert("open-ok", err == nil)
	ref := vxNewNode()
	names := []string{"a"}
	none := map[string]bool{}
	var K vxKey
	K.n = 1
	K.b[0] = 'k'
	kb := vxKeyBytes(K)
	for r := 0; r < 2; r++ {
		b, berr := coll.NewBatch(4, 64)
		vxAssert("newbatch-ok", berr == nil)
		shape := vxChoose(3)
		if shape != 1 {
			ents := vxFixedSet()
			vxFillBatch(b, ents)
			ref.layers = append(ref.layers, ents)
		}
		if shape != 0 {
			cb, cerr := b.NewChildCollectionBatch("a", BatchOptions{TotalOps: 2, TotalKeyValBytes: 16})
			vxAssert("childbatch-ok", cerr == nil)
			ents := vxFixedSet()
			vxFillBatch(cb, ents)
			if ref.kids["a"] == nil {
				ref.kids["a"] = vxNewNode()
			}
			ref.kids["a"].layers = append(ref.kids["a"].layers, ents)
		}
		vxAssert("executebatch-ok", coll.ExecuteBatch(b, WriteOptions{}) == nil)
		b.Close()
		vxDrain(coll)
	}
	closedFirst := vxChoose(2) == 1
	if closedFirst {
		coll.Close()
	}
	check := func(tag string) {
		ss, serr := store.Snapshot()
		vxAssert("store-snapshot-ok", serr == nil)
		vxCheckTree(tag+"-store", ss, ref, K, kb, names, none)
		ss.Close()
	}
	check("before")
	ns, perr := store.Persist(nil, StorePersistOptions{CompactionConcern: CompactionConcern(1 + vxChoose(2))}) // Allow or Force
	vxAssert("compact-now-ok", perr == nil)
	if ns != nil {
		vxCheckTree("returned", ns, ref, K, kb, names, none)
		ns.Close()
	}
	check("after")
	if !closedFirst {
		cs, cerr := coll.Snapshot()
		vxAssert("coll-snapshot-ok", cerr == nil)
		vxCheckTree("after-coll", cs, ref, K, kb, names, none)
		cs.Close()
		coll.Close()
	}
	store.Close()
	vxQuiesce()
	store, coll, err = OpenStoreCollection(fs.dir, so, po)
	vxAssert("reopen-ok", err == nil)
	check("reopened")
	coll.Close()
	store.Close()
}
