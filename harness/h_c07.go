package moss

// C07: compaction never changes content and reclaims garbage.

func init() {
	vxRegister("vxH_C07_rounds", vxH_C07_rounds)
}

// vxH_C07_rounds: a store-backed collection with one child collection goes
// through r persistence rounds (each: one batch touching parent and/or
// child, then drain) under a symbolic compaction concern and level
// configuration; after every round the store's own snapshot and the
// collection equal the reference for parent and child. After a forced
// (full) compaction round the store holds at most one segment per
// collection and no deletion markers; at the end only one data file is
// left once everything is closed.
func vxH_C07_rounds() {
	rounds := 2
	if vxTier() == 1 {
		rounds = 3
	}
	fs := vxNewFS()
	so := vxStoreOptions(fs)
	so.CompactionLevelMaxSegments = 1 + vxChoose(2)
	so.CompactionLevelMultiplier = 2
	so.CompactionPercentage = -1 // never judge by fragmentation (float policy branch, concrete only)
	po := StorePersistOptions{CompactionConcern: CompactionConcern(vxChoose(3))}
	so.CollectionOptions.OnError = func(err error) {
		vxAssert("no-persistence-error: "+err.Error(), false)
	}
	store, coll, err := OpenStoreCollection(fs.dir, so, po)
	vxAssert("open-ok", err == nil)
	ref := vxNewNode()
	names := []string{"a"}
	none := map[string]bool{}
	var K, J vxKey
	K.n, J.n = 1, 1
	K.b[0], J.b[0] = 'k', 'j'
	kb, jb := vxKeyBytes(K), vxKeyBytes(J)
	// optionally a big first round, so that later rounds are compacted
	// PARTIALLY (splice point > 0) under CompactionAllow
	if vxChoose(2) == 1 {
		rounds++
		b, berr := coll.NewBatch(8, 64)
		vxAssert("newbatch-ok", berr == nil)
		var big []vxEnt
		for _, kb := range []byte{'a', 'b', 'c', 'd'} {
			var e vxEnt
			e.op = OperationSet
			e.k.n, e.k.b[0] = 1, kb
			e.v.n, e.v.b[0] = 1, vxU8()
			big = append(big, e)
		}
		vxFillBatch(b, big)
		ref.layers = append(ref.layers, big)
		if vxChoose(2) == 1 {
			cb, cerr := b.NewChildCollectionBatch("a", BatchOptions{TotalOps: 2, TotalKeyValBytes: 16})
			vxAssert("childbatch-ok", cerr == nil)
			cents := vxFixedSet()
			vxFillBatch(cb, cents)
			ref.kids["a"] = vxNewNode()
			ref.kids["a"].layers = append(ref.kids["a"].layers, cents)
		}
		vxAssert("executebatch-ok", coll.ExecuteBatch(b, WriteOptions{}) == nil)
		b.Close()
		vxDrain(coll)
		rounds--
	}
	for r := 0; r < rounds; r++ {
		b, berr := coll.NewBatch(4, 64)
		vxAssert("newbatch-ok", berr == nil)
		shape := vxChoose(3) // 0: parent only, 1: child only, 2: both
		if shape != 1 {
			ents := vxFixedEnt()
			vxFillBatch(b, ents)
			ref.layers = append(ref.layers, ents)
		}
		if shape != 0 {
			cb, cerr := b.NewChildCollectionBatch("a", BatchOptions{TotalOps: 2, TotalKeyValBytes: 16})
			vxAssert("childbatch-ok", cerr == nil)
			ents := vxFixedEnt()
			vxFillBatch(cb, ents)
			if ref.kids["a"] == nil {
				ref.kids["a"] = vxNewNode()
			}
			ref.kids["a"].layers = append(ref.kids["a"].layers, ents)
		}
		vxAssert("executebatch-ok", coll.ExecuteBatch(b, WriteOptions{}) == nil)
		b.Close()
		vxDrain(coll)

		ss, serr := store.Snapshot()
		vxAssert("store-snapshot-ok", serr == nil)
		vxCheckTree("store", ss, ref, K, kb, names, none)
		vxCheckTree("store2", ss, ref, J, jb, names, none)
		if po.CompactionConcern == CompactionForce {
			f := ss.(*Footer)
			vxAssert("full-compaction-one-segment", len(f.SegmentLocs) <= 1)
			for _, sl := range f.SegmentLocs {
				vxAssert("full-compaction-no-deletions", sl.TotOpsDel == 0)
			}
			for _, cf := range f.ChildFooters {
				vxAssert("full-compaction-one-child-segment", len(cf.SegmentLocs) <= 1)
				for _, sl := range cf.SegmentLocs {
					vxAssert("full-compaction-no-child-deletions", sl.TotOpsDel == 0)
				}
			}
		}
		vxObserveU64("partial-compactions", store.totCompactionsPartial)
		ss.Close()
		cs, cerr := coll.Snapshot()
		vxAssert("coll-snapshot-ok", cerr == nil)
		vxCheckTree("coll", cs, ref, K, kb, names, none)
		vxCheckTree("coll2", cs, ref, J, jb, names, none)
		cs.Close()
	}
	coll.Close()
	store.Close()
	vxQuiesce()
	vxObserveInt("files-left", len(fs.names()))
	// known finding: mappings/files referenced by child collection footers
	// are never released, so a superseded file that held child segments
	// is never closed and never removed.
	vxAssertK("superseded-files-removed", len(fs.names()) <= 1, "C15-child-footer-never-released", len(ref.kids) > 0)
	// the known finding excuses a file too many, never a file too few
	vxAssert("current-data-file-kept", len(fs.names()) >= 1)
	// and what is left reopens to the same content
	store2, coll2, err2 := OpenStoreCollection(fs.dir, so, po)
	vxAssert("reopen-ok", err2 == nil)
	cs2, cerr2 := coll2.Snapshot()
	vxAssert("reopen-snapshot-ok", cerr2 == nil)
	vxCheckTree("reopened", cs2, ref, K, kb, names, none)
	cs2.Close()
	coll2.Close()
	store2.Close()
}

func init() { vxRegister("vxH_C07_recreate", vxH_C07_recreate) }

// vxH_C07_recreate: a persisted child collection is deleted and created
// again under the same name (writing another key) before - or after - the
// next persistence round, which compacts according to a symbolic concern;
// one more round follows. After every round, and after a clean close and
// reopen, the store's snapshot and the collection equal the reference:
// nothing of the deleted incarnation comes back.
func vxH_C07_recreate() {
	fs := vxNewFS()
	so := vxStoreOptions(fs)
	so.CompactionLevelMaxSegments = 1
	so.CompactionLevelMultiplier = 2
	so.CompactionPercentage = -1
	po := StorePersistOptions{CompactionConcern: CompactionConcern(vxChoose(3))}
	so.CollectionOptions.OnError = func(err error) {
		vxAssert("no-persistence-error: "+err.Error(), false)
	}
	store, coll, err := OpenStoreCollection(fs.dir, so, po)
	vxAssert("open-ok", err == nil)
	ref := vxNewNode()
	names := []string{"a"}
	none := map[string]bool{}
	var K, J vxKey
	K.n, J.n = 1, 1
	K.b[0], J.b[0] = 'k', 'j'
	kb, jb := vxKeyBytes(K), vxKeyBytes(J)
	exec := func(parent bool, child int, key byte) { // child: 0 none, 1 write, 2 delete
		b, berr := coll.NewBatch(4, 64)
		vxAssert("newbatch-ok", berr == nil)
		if parent {
			ents := vxFixedSet()
			vxFillBatch(b, ents)
			ref.layers = append(ref.layers, ents)
		}
		switch child {
		case 1:
			cb, cerr := b.NewChildCollectionBatch("a", BatchOptions{TotalOps: 2, TotalKeyValBytes: 16})
			vxAssert("childbatch-ok", cerr == nil)
			ents := vxFixedSet()
			ents[0].k.b[0] = key
			vxFillBatch(cb, ents)
			if ref.kids["a"] == nil {
				ref.kids["a"] = vxNewNode()
			}
			ref.kids["a"].layers = append(ref.kids["a"].layers, ents)
		case 2:
			vxAssert("delchild-ok", b.DelChildCollection("a") == nil)
			delete(ref.kids, "a")
		}
		vxAssert("executebatch-ok", coll.ExecuteBatch(b, WriteOptions{}) == nil)
		b.Close()
	}
	check := func(tag string) {
		ss, serr := store.Snapshot()
		vxAssert("store-snapshot-ok", serr == nil)
		vxCheckTree(tag+"-store", ss, ref, K, kb, names, none)
		vxCheckTree(tag+"-store2", ss, ref, J, jb, names, none)
		ss.Close()
		cs, cerr := coll.Snapshot()
		vxAssert("coll-snapshot-ok", cerr == nil)
		vxCheckTree(tag+"-coll", cs, ref, K, kb, names, none)
		vxCheckTree(tag+"-coll2", cs, ref, J, jb, names, none)
		cs.Close()
	}
	exec(vxChoose(2) == 1, 1, 'k')
	vxDrain(coll)
	check("first")
	exec(true, 2, 0) // the deletion travels with a parent write (see C11-child-delete-alone-not-persisted)
	if vxChoose(2) == 1 {
		vxDrain(coll)
	}
	exec(false, 1, 'j') // the child is created again
	vxDrain(coll)
	check("recreated")
	exec(true, vxChoose(2), 'k')
	vxDrain(coll)
	check("later")
	coll.Close()
	store.Close()
	vxQuiesce()
	store, coll, err = OpenStoreCollection(fs.dir, so, po)
	vxAssert("reopen-ok", err == nil)
	check("reopened")
	coll.Close()
	store.Close()
}

func init() { vxRegister("vxH_C07_compactNow", vxH_C07_compactNow) }

// vxH_C07_compactNow: Store.Persist(nil, CompactionForce) - "the higher
// snapshot may be nil" - compacts what is already persisted, here after
// rounds that wrote the top level and/or a child collection, while the
// collection is quiescent or already closed. The store's snapshot equals
// the reference before and after, also after a reopen.
func vxH_C07_compactNow() {
	fs := vxNewFS()
	so := vxStoreOptions(fs)
	so.CompactionLevelMaxSegments = 1
	so.CompactionPercentage = -1
	po := StorePersistOptions{CompactionConcern: CompactionConcern(vxChoose(2))} // rounds: disable or allow
	store, coll, err := OpenStoreCollection(fs.dir, so, po)
	vxAssert("open-ok", err == nil)
	ref := vxNewNode()
	names := []string{"a"}
	none := map[string]bool{}
	var K vxKey
	K.n = 1
	K.b[0] = 'k'
	kb := vxKeyBytes(K)
	for r := 0; r < 2; r++ {
		b, berr := coll.NewBatch(4, 64)
		vxAssert("newbatch-ok", berr == nil)
		shape := vxChoose(3)
		if shape != 1 {
			ents := vxFixedSet()
			vxFillBatch(b, ents)
			ref.layers = append(ref.layers, ents)
		}
		if shape != 0 {
			cb, cerr := b.NewChildCollectionBatch("a", BatchOptions{TotalOps: 2, TotalKeyValBytes: 16})
			vxAssert("childbatch-ok", cerr == nil)
			ents := vxFixedSet()
			vxFillBatch(cb, ents)
			if ref.kids["a"] == nil {
				ref.kids["a"] = vxNewNode()
			}
			ref.kids["a"].layers = append(ref.kids["a"].layers, ents)
		}
		vxAssert("executebatch-ok", coll.ExecuteBatch(b, WriteOptions{}) == nil)
		b.Close()
		vxDrain(coll)
	}
	closedFirst := vxChoose(2) == 1
	if closedFirst {
		coll.Close()
	}
	check := func(tag string) {
		ss, serr := store.Snapshot()
		vxAssert("store-snapshot-ok", serr == nil)
		vxCheckTree(tag+"-store", ss, ref, K, kb, names, none)
		ss.Close()
	}
	check("before")
	ns, perr := store.Persist(nil, StorePersistOptions{CompactionConcern: CompactionConcern(1 + vxChoose(2))}) // Allow or Force
	vxAssert("compact-now-ok", perr == nil)
	if ns != nil {
		vxCheckTree("returned", ns, ref, K, kb, names, none)
		ns.Close()
	}
	check("after")
	if !closedFirst {
		cs, cerr := coll.Snapshot()
		vxAssert("coll-snapshot-ok", cerr == nil)
		vxCheckTree("after-coll", cs, ref, K, kb, names, none)
		cs.Close()
		coll.Close()
	}
	store.Close()
	vxQuiesce()
	store, coll, err = OpenStoreCollection(fs.dir, so, po)
	vxAssert("reopen-ok", err == nil)
	check("reopened")
	coll.Close()
	store.Close()
}

func init() { vxRegister("vxH_C07_splice", vxH_C07_splice) }

// vxH_C07_splice: one step of leveled (partial) compaction from an
// arbitrary persisted state. Rounds of symbolic shape (parent / child /
// both) are persisted without compaction, so the top-level collection and
// the child collection end up with different numbers of segments; then one
// more batch is compacted by Store.compact with a SYMBOLIC splice point in
// [0, number of top-level segments) - the policy (calcPartialCompactionStart)
// can return any of them, depending on segment sizes. The store's snapshot
// and a reopened collection equal the reference afterwards.
func vxH_C07_splice() {
	rounds := 3
	fs := vxNewFS()
	so := vxStoreOptions(fs)
	so.CollectionOptions.OnError = func(err error) {
		vxAssert("no-persistence-error: "+err.Error(), false)
	}
	po := StorePersistOptions{CompactionConcern: CompactionDisable}
	store, coll, err := OpenStoreCollection(fs.dir, so, po)
	vxAssert("open-ok", err == nil)
	ref := vxNewNode()
	names := []string{"a"}
	none := map[string]bool{}
	var K, J vxKey
	K.n, J.n = 1, 1
	K.b[0], J.b[0] = 'k', 'j'
	kb, jb := vxKeyBytes(K), vxKeyBytes(J)
	thorough := vxTier() == 1
	// the persisted rounds are Sets of k (thorough: Set or Del); the batch
	// that is compacted sets or deletes k
	mk := func(last bool) []vxEnt {
		ents := vxFixedSet()
		if (last || thorough) && vxChoose(2) == 1 {
			ents[0].op = OperationDel
			ents[0].v.n = 0
		}
		return ents
	}
	fill := func(c Collection, last bool) {
		b, berr := c.NewBatch(4, 64)
		vxAssert("newbatch-ok", berr == nil)
		shape := vxChoose(3) // 0 parent, 1 child, 2 both
		if shape != 1 {
			ents := mk(last)
			vxFillBatch(b, ents)
			ref.layers = append(ref.layers, ents)
		}
		if shape != 0 {
			cb, cerr := b.NewChildCollectionBatch("a", BatchOptions{TotalOps: 2, TotalKeyValBytes: 16})
			vxAssert("childbatch-ok", cerr == nil)
			ents := mk(last)
			vxFillBatch(cb, ents)
			if ref.kids["a"] == nil {
				ref.kids["a"] = vxNewNode()
			}
			ref.kids["a"].layers = append(ref.kids["a"].layers, ents)
		}
		vxAssert("executebatch-ok", c.ExecuteBatch(b, WriteOptions{}) == nil)
		b.Close()
	}
	for r := 0; r < rounds; r++ {
		fill(coll, false)
		vxDrain(coll)
	}
	// the next batch stays in memory: Close stops merger and persister
	// first, and the collection's snapshot is what Persist would be handed
	coll.(*collection).options.LowerLevelUpdate = nil
	fill(coll, true)
	cc := coll.(*collection)
	cc.NotifyMerger("mergeAll", true)
	vxQuiesce()
	cc.m.Lock()
	higher := cc.stackDirtyMid
	if higher == nil {
		higher = cc.stackDirtyBase
	}
	cc.m.Unlock()
	vxAssert("higher-there", higher != nil)
	if higher == nil {
		return
	}
	footer, ferr := store.snapshot()
	vxAssert("footer-ok", ferr == nil)
	nTop := len(footer.SegmentLocs)
	vxObserveInt("top-segments", nTop)
	if cf := footer.ChildFooters["a"]; cf != nil {
		vxObserveInt("child-segments", len(cf.SegmentLocs))
	}
	splice := 0
	if nTop > 0 {
		splice = vxChoose(nTop)
	}
	vxObserveInt("splice", splice)
	cerr := store.compact(footer, splice, higher, StorePersistOptions{CompactionConcern: CompactionForce})
	footer.DecRef()
	vxAssert("compact-ok", cerr == nil)
	ss, serr := store.Snapshot()
	vxAssert("store-snapshot-ok", serr == nil)
	vxCheckTree("compacted-store", ss, ref, K, kb, names, none)
	vxCheckTree("compacted-store2", ss, ref, J, jb, names, none)
	ss.Close()
	coll.Close()
	store.Close()
	vxQuiesce()
	store, coll, err = OpenStoreCollection(fs.dir, so, po)
	vxAssert("reopen-ok", err == nil)
	cs, cserr := coll.Snapshot()
	vxAssert("coll-snapshot-ok", cserr == nil)
	vxCheckTree("reopened", cs, ref, K, kb, names, none)
	vxCheckTree("reopened2", cs, ref, J, jb, names, none)
	cs.Close()
	coll.Close()
	store.Close()
}

func init() { vxRegister("vxH_C07_reclaim", vxH_C07_reclaim) }

// vxH_C07_reclaim: garbage is reclaimed by a full compaction also when the
// newest segment ends with entries that no other segment reaches (the merge
// copies the tail of the last segment). Round 1 sets "a"; round 2 is one
// batch with symbolic operations (Set or Del) on "m" and "z"; both rounds
// under CompactionForce. Afterwards the store has one segment, no deletion
// marker (neither in the footer's counters nor when iterating with
// IncludeDeletions), and the content equals the reference.
func vxH_C07_reclaim() {
	fs := vxNewFS()
	so := vxStoreOptions(fs)
	po := StorePersistOptions{CompactionConcern: CompactionForce}
	store, coll, err := OpenStoreCollection(fs.dir, so, po)
	vxAssert("open-ok", err == nil)
	mk := func(k byte, mayDel bool) vxEnt {
		var e vxEnt
		e.k.n, e.k.b[0] = 1, k
		e.op, e.v.n, e.v.b[0] = OperationSet, 1, vxU8()
		if mayDel && vxChoose(2) == 1 {
			e.op, e.v.n = OperationDel, 0
		}
		return e
	}
	var layers [][]vxEnt
	r1 := []vxEnt{mk('a', false)}
	vxExec(coll, r1)
	layers = append(layers, r1)
	vxDrain(coll)
	r2 := []vxEnt{mk('m', true), mk('z', true)}
	vxExec(coll, r2)
	layers = append(layers, r2)
	vxDrain(coll)
	ss, serr := store.Snapshot()
	vxAssert("store-snapshot-ok", serr == nil)
	f := ss.(*Footer)
	vxAssert("full-compaction-one-segment", len(f.SegmentLocs) <= 1)
	for _, sl := range f.SegmentLocs {
		vxObserveU64("deletions-left", sl.TotOpsDel)
		vxAssert("full-compaction-no-deletions", sl.TotOpsDel == 0)
	}
	it, ierr := ss.StartIterator(nil, nil, IteratorOptions{IncludeDeletions: true, SkipLowerLevel: true})
	vxAssert("iter-ok", ierr == nil)
	if it != nil {
		for {
			ex, _, _, cerr := it.CurrentEx()
			if cerr == ErrIteratorDone {
				break
			}
			vxAssert("no-deletion-entry-left", ex.Operation != OperationDel)
			if it.Next() != nil {
				break
			}
		}
		it.Close()
	}
	for _, kb := range []byte{'a', 'm', 'z'} {
		var K vxKey
		K.n, K.b[0] = 1, kb
		got, gerr := ss.Get([]byte{kb}, ReadOptions{})
		vxAssert("get-ok", gerr == nil)
		vxAssert("content-equals-reference", vxGotIs(got, vxRefGet(K, layers...)))
	}
	ss.Close()
	coll.Close()
	store.Close()
}
