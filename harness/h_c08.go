package moss

// C08: merge operands fold in order, exactly once.

func init() {
	vxRegister("vxH_C08_fold", vxH_C08_fold)
	vxRegister("vxH_C08_history", vxH_C08_history)
}

// vxAppendMO is an order-sensitive merge operator: FullMerge appends the
// operands, in order, to the existing value (nil counts as empty). Lost,
// duplicated or reordered operands show in length and content.
type vxAppendMO struct{}

func (vxAppendMO) Name() string { return "vxAppendMO" }

func (vxAppendMO) FullMerge(key, existing []byte, operands [][]byte) ([]byte, bool) {
	out := make([]byte, 0, len(existing)+4)
	out = append(out, existing...)
	for _, o := range operands {
		out = append(out, o...)
	}
	return out, true
}

func (vxAppendMO) PartialMerge(key, l, r []byte) ([]byte, bool) { return nil, false }

// vxFold is a folded value of symbolic length <= vxFL.
type vxFold struct {
	b [vxFL]uint8
	n int
}

// vxFoldAppend returns base ‖ v.
func vxFoldAppend(base vxFold, v vxVal) vxFold {
	var r vxFold
	for p := 0; p < vxFL; p++ {
		// byte p of the result: base.b[p] if p < base.n, else v.b[p-base.n]
		var fromV uint8
		for bn := 0; bn <= p; bn++ {
			q := p - bn
			if q < vxVL {
				fromV = vxIteU8(base.n == bn, v.b[q], fromV)
			}
		}
		r.b[p] = vxIteU8(p < base.n, base.b[p], fromV)
	}
	r.n = base.n + v.n
	return r
}

func vxIteFold(c bool, a, b vxFold) vxFold {
	var r vxFold
	for p := 0; p < vxFL; p++ {
		r.b[p] = vxIteU8(c, a.b[p], b.b[p])
	}
	r.n = vxIteInt(c, a.n, b.n)
	return r
}

type vxFoldRef struct {
	live bool
	v    vxFold
}

// vxRefFold: left fold of the appending operator over the operands issued
// since the key's latest Set or Del, oldest first.
func vxRefFold(K vxKey, layers ...[]vxEnt) vxFoldRef {
	var r vxFoldRef
	var empty vxFold
	for _, ents := range layers {
		for _, e := range ents {
			m := vxKeyEq(e.k, K)
			isSet := e.op == OperationSet
			isDel := e.op == OperationDel
			var asSet vxFold
			for p := 0; p < vxVL; p++ {
				asSet.b[p] = e.v.b[p]
			}
			asSet.n = e.v.n
			base := vxIteFold(r.live, r.v, empty)
			merged := vxFoldAppend(base, e.v)
			nv := vxIteFold(isSet, asSet, merged)
			r.v = vxIteFold(m, nv, r.v)
			r.live = vxIteBool(m, vxNot(isDel), r.live)
		}
	}
	return r
}

func vxFoldIs(got []byte, r vxFoldRef) bool {
	if got == nil {
		return vxNot(r.live)
	}
	if len(got) > vxFL {
		return false
	}
	ok := vxAnd(r.live, len(got) == r.v.n)
	for j := 0; j < len(got); j++ {
		ok = vxAnd(ok, got[j] == r.v.b[j])
	}
	return ok
}

// vxH_C08_fold: on an arbitrary placement of Set/Del/Merge operations over
// the five sections, Snapshot.Get, Collection.Get and the iterator entry
// equal the reference fold.
func vxH_C08_fold() {
	kl, vl, maxSecs := 1, 1, 2
	if vxTier() == 1 {
		maxSecs = 3
	}
	vc := vxMkColl(maxSecs, 1, 1, kl, vl, vxOpsAll, vxAppendMO{})
	K := vxNewKey(kl)
	kb := vxKeyBytes(K)
	ref := vxRefFold(K, vc.layers...)
	snap, err := vc.c.Snapshot()
	vxAssert("snapshot-ok", err == nil)
	if vc.nLower > 0 && vxChoose(2) == 1 {
		// SkipLowerLevel: Get and the iterator agree on the fold over
		// everything above the lower level
		up := vxRefFold(K, vc.layers[vc.nLower:]...)
		g, gerr := snap.Get(kb, ReadOptions{SkipLowerLevel: true})
		vxAssert("skip-get-ok", gerr == nil)
		vxAssert("skip-get-equals-upper-fold", vxFoldIs(g, up))
		sit, serr := snap.StartIterator(kb, nil, IteratorOptions{SkipLowerLevel: true})
		vxAssert("skip-iter-ok", serr == nil)
		ik, iv, ierr := sit.Current()
		if ierr == ErrIteratorDone {
			vxAssert("skip-iter-done-means-absent", vxNot(up.live))
		} else {
			atK := vxKeyEq(vxKeyOf(ik), K)
			vxAssert("skip-iter-entry-equals-upper-fold", vxAnd(vxImplies(atK, vxFoldIs(iv, up)), vxImplies(up.live, atK)))
		}
		sit.Close()
		snap.Close()
		return
	}
	sgot, err := snap.Get(kb, ReadOptions{})
	vxAssert("snapshot-get-ok", err == nil)
	vxObserveBytes("snapshot-get", sgot)
	vxAssert("snapshot-get-equals-fold", vxFoldIs(sgot, ref))
	cgot, err := vc.c.Get(kb, ReadOptions{})
	vxAssert("collection-get-ok", err == nil)
	vxAssert("collection-get-equals-fold", vxFoldIs(cgot, ref))
	it, err := snap.StartIterator(kb, nil, IteratorOptions{})
	vxAssert("iter-ok", err == nil)
	ik, iv, ierr := it.Current()
	if ierr == ErrIteratorDone {
		vxAssert("iter-done-means-absent", vxNot(ref.live))
	} else {
		vxAssert("iter-current-ok", ierr == nil)
		atK := vxKeyEq(vxKeyOf(ik), K)
		vxAssert("iter-entry-equals-fold", vxAnd(vxImplies(atK, vxFoldIs(iv, ref)), vxImplies(ref.live, atK)))
	}
	it.Close()
	snap.Close()
}

// vxH_C08_history: Set/Del/Merge batches on one fixed key interleaved with
// merger cycles, drains (persistence, with compaction when store-backed)
// and reopen; every read equals the reference fold at the end.
func vxH_C08_history() {
	steps := 4
	if vxTier() == 1 {
		steps = 5
	}
	backed := vxChoose(2) == 1
	var fs *vxFS
	var so StoreOptions
	var po StorePersistOptions
	var store *Store
	var coll Collection
	var err error
	if backed {
		fs = vxNewFS()
		so = vxStoreOptions(fs)
		so.CollectionOptions.MergeOperator = vxAppendMO{}
		so.CollectionOptions.CachePersisted = vxChoose(2) == 1
		so.CompactionLevelMaxSegments = 1 + vxChoose(2)
		so.CompactionLevelMultiplier = 2
		so.CompactionPercentage = -1
		po = StorePersistOptions{CompactionConcern: CompactionConcern(vxChoose(3))}
		store, coll, err = OpenStoreCollection(fs.dir, so, po)
		vxAssert("open-ok", err == nil)
	} else {
		coll, err = NewCollection(CollectionOptions{MergeOperator: vxAppendMO{}})
		vxAssert("new-ok", err == nil)
		coll.Start()
	}
	var K vxKey
	K.n = 1
	K.b[0] = 'k'
	kb := vxKeyBytes(K)
	var layers [][]vxEnt
	nb := 0
	for s := 0; s < steps; s++ {
		kind := 1
		if nb > 0 {
			kind = vxChoose(5)
		}
		if kind == 0 {
			break
		}
		switch kind {
		case 1:
			var e vxEnt
			e.k = K
			switch vxChoose(3) {
			case 0:
				e.op = OperationSet
				e.v.n = 1
				e.v.b[0] = vxU8()
			case 1:
				e.op = OperationMerge
				e.v.n = 1
				e.v.b[0] = vxU8()
			default:
				e.op = OperationDel
			}
			vxExec(coll, []vxEnt{e})
			layers = append(layers, []vxEnt{e})
			nb++
		case 2:
			coll.(*collection).NotifyMerger("go", true)
		case 3:
			vxDrain(coll)
		case 4:
			if !backed {
				continue
			}
			vxDrain(coll)
			coll.Close()
			store.Close()
			vxQuiesce()
			store, coll, err = OpenStoreCollection(fs.dir, so, po)
			vxAssert("reopen-ok", err == nil)
		}
	}
	ref := vxRefFold(K, layers...)
	snap, serr := coll.Snapshot()
	vxAssert("snapshot-ok", serr == nil)
	got, gerr := snap.Get(kb, ReadOptions{})
	vxAssert("get-ok", gerr == nil)
	vxObserveBytes("get", got)
	vxAssert("get-equals-fold", vxFoldIs(got, ref))
	cgot, cerr := coll.Get(kb, ReadOptions{})
	vxAssert("collection-get-ok", cerr == nil)
	vxAssert("collection-get-equals-fold", vxFoldIs(cgot, ref))
	snap.Close()
	coll.Close()
	if backed {
		store.Close()
	}
}

func init() { vxRegister("vxH_C08_child", vxH_C08_child) }

// vxH_C08_child: merge operands in a CHILD collection of a store-backed
// collection whose LowerLevelUpdate (= Store.Persist, wired by hand as the
// API documents) can be stalled, so that a persistence round is in flight
// while later batches go through merger cycles. Batches: Set / Merge / Del
// on the child's key k, or a Set on another child key (a second segment, so
// the merger really merges); between batches nothing, a merger cycle, or a
// drain. At the end (stall released, drained) the collection's child and
// the store's child both read the reference fold, and so does the
// collection's child before the release.
func vxH_C08_child() {
	steps := 3
	if vxTier() == 1 {
		steps = 4
	}
	fs := vxNewFS()
	so := vxStoreOptions(fs)
	so.CollectionOptions.MergeOperator = vxAppendMO{}
	so.CompactionLevelMaxSegments = 1
	so.CompactionPercentage = -1
	po := StorePersistOptions{CompactionConcern: CompactionConcern(vxChoose(3))}
	store, err := OpenStore(fs.dir, so)
	vxAssert("open-ok", err == nil)
	llInit, err := store.Snapshot()
	vxAssert("store-snapshot-ok", err == nil)
	stallAt := -1
	if vxChoose(2) == 1 {
		stallAt = 0
	}
	calls := 0
	release := make(chan struct{})
	co := so.CollectionOptions
	co.CachePersisted = vxChoose(2) == 1
	co.LowerLevelInit = llInit
	co.LowerLevelUpdate = func(higher Snapshot) (Snapshot, error) {
		n := calls
		calls++
		if n == stallAt {
			<-release
		}
		return store.Persist(higher, po)
	}
	coll, err := NewCollection(co)
	vxAssert("new-ok", err == nil)
	coll.Start()
	var K vxKey
	K.n = 1
	K.b[0] = 'k'
	kb := vxKeyBytes(K)
	var layers [][]vxEnt
	for s := 0; s < steps; s++ {
		var e vxEnt
		e.k = K
		nops := 4
		if s == 0 {
			nops = 2
		}
		switch vxChoose(nops) {
		case 0:
			e.op = OperationSet
			e.v.n = 1
			e.v.b[0] = vxU8()
		case 1:
			e.op = OperationMerge
			e.v.n = 1
			e.v.b[0] = vxU8()
		case 2:
			e.op = OperationSet
			e.k.b[0] = 'z'
			e.v.n = 1
			e.v.b[0] = 1
		default:
			e.op = OperationDel
		}
		b, berr := coll.NewBatch(1, 8)
		vxAssert("newbatch-ok", berr == nil)
		cb, cerr := b.NewChildCollectionBatch("a", BatchOptions{TotalOps: 2, TotalKeyValBytes: 16})
		vxAssert("childbatch-ok", cerr == nil)
		vxFillBatch(cb, []vxEnt{e})
		vxAssert("executebatch-ok", coll.ExecuteBatch(b, WriteOptions{}) == nil)
		b.Close()
		layers = append(layers, []vxEnt{e})
		act := 0
		if s > 0 {
			act = vxChoose(3)
		} else {
			act = 1 + vxChoose(2)
		}
		switch act {
		case 1:
			coll.(*collection).NotifyMerger("go", true)
			vxQuiesce()
		case 2:
			vxDrain(coll)
		}
	}
	ref := vxRefFold(K, layers...)
	readChild := func(tag string, snap Snapshot) {
		cs, cerr := snap.ChildCollectionSnapshot("a")
		vxAssert(tag+"-child-snapshot-ok", cerr == nil && cs != nil)
		if cs == nil {
			return
		}
		got, gerr := cs.Get(kb, ReadOptions{})
		vxAssert(tag+"-child-get-ok", gerr == nil)
		vxObserveBytes(tag+"-child-get", got)
		vxAssert(tag+"-child-get-equals-fold", vxFoldIs(got, ref))
		it, ierr := cs.StartIterator(kb, nil, IteratorOptions{})
		vxAssert(tag+"-child-iter-ok", ierr == nil)
		if it != nil {
			ik, iv, cerr := it.Current()
			if cerr == ErrIteratorDone {
				vxAssert(tag+"-child-iter-done-means-absent", vxNot(ref.live))
			} else {
				atK := vxKeyEq(vxKeyOf(ik), K)
				vxAssert(tag+"-child-iter-entry-equals-fold", vxAnd(vxImplies(atK, vxFoldIs(iv, ref)), vxImplies(ref.live, atK)))
			}
			it.Close()
		}
		cs.Close()
	}
	snap, serr := coll.Snapshot()
	vxAssert("snapshot-ok", serr == nil)
	readChild("in-flight", snap)
	snap.Close()
	if stallAt >= 0 {
		close(release)
	}
	vxDrain(coll)
	vxDrain(coll)
	snap, serr = coll.Snapshot()
	vxAssert("snapshot-ok", serr == nil)
	readChild("drained", snap)
	snap.Close()
	ss, sserr := store.Snapshot()
	vxAssert("store-snapshot-ok", sserr == nil)
	readChild("store", ss)
	ss.Close()
	coll.Close()
	store.Close()
}
