package moss

// C09: iterators enumerate the range in order and seek correctly.

func init() { vxRegister("vxH_C09_iterProgram", vxH_C09_iterProgram) }

// vxOptKey is nil (0) or a key of symbolic content.
func vxOptKey(kl int) (has bool, k vxKey, b []byte) {
	if vxChoose(2) == 0 {
		return false, k, nil
	}
	k = vxNewKey(kl)
	return true, k, vxKeyBytes(k)
}

// vxH_C09_iterProgram drives a symbolic program of Next/SeekTo calls over
// an iterator on a symbolic stack (optionally with a lower level) with
// symbolic bounds, and checks Current after every call against the
// relational oracle "smallest live in-range key at or after the expected
// position".
func vxH_C09_iterProgram() {
	nseg, nops, llops, kl, vl, calls := 2, 1, 1, 1, 1, 1
	if vxTier() == 1 {
		nseg, nops, llops, kl, vl, calls = 2, 1, 1, 1, 1, 2
	}
	opts := &CollectionOptions{}
	ss, layers := vxMkStack(opts, 1+vxChoose(nseg), nops, kl, vl, vxOpsSetDel)
	if vxChoose(2) == 1 {
		ll, llLayers := vxMkStack(opts, 1, llops, kl, vl, vxOpsSetDel)
		ss.lowerLevelSnapshot = NewSnapshotWrapper(ll, nil)
		layers = append(llLayers, layers...)
	}
	DefaultNaiveSeekToMaxTries = 1
	if vxTier() == 1 && vxChoose(2) == 1 {
		DefaultNaiveSeekToMaxTries = 100
	}
	hasS, S, sb := vxOptKey(kl)
	hasE, E, eb := vxOptKey(kl)
	inRange := func(k vxKey) bool {
		r := true
		if hasS {
			r = vxAnd(r, vxKeyLE(S, k))
		}
		if hasE {
			r = vxAnd(r, vxKeyLess(k, E))
		}
		return r
	}
	it, err := ss.StartIterator(sb, eb, IteratorOptions{})
	vxAssert("start-ok", err == nil)

	// expected position: smallest live in-range key >= lb (or > lb)
	hasLB, lb, lbExcl := hasS, S, false
	done := false
	afterSeek := false
	// excuse of known finding C09-optimize-after-skip: the iterator skipped a
	// tombstone (a dead in-range key) while being positioned at the start.
	skipAtStart := false
	check := func(tag string) {
		k, v, cerr := it.Current()
		after := func(x vxKey) bool { // x is at/after the expected position
			if !hasLB {
				return true
			}
			if lbExcl {
				return vxKeyLess(lb, x)
			}
			return vxKeyLE(lb, x)
		}
		if cerr == ErrIteratorDone {
			vxObserveInt(tag+"-done", 1)
			// nothing live in range at/after the position
			ok := true
			for _, ents := range layers {
				for _, e := range ents {
					ok = vxAnd(ok, vxImplies(vxAnd(inRange(e.k), after(e.k)), vxNot(vxRefGet(e.k, layers...).live)))
				}
			}
			if afterSeek {
				vxAssertK(tag+"-done-means-exhausted", ok, "C09-optimize-after-skip", skipAtStart)
			} else {
				vxAssert(tag+"-done-means-exhausted", ok)
			}
			done = true
			return
		}
		vxAssert(tag+"-current-ok", cerr == nil)
		vxAssert(tag+"-not-after-done", !done)
		vxObserveBytes(tag+"-key", k)
		ck := vxKeyOf(k)
		ref := vxRefGet(ck, layers...)
		vxAssert(tag+"-in-range", inRange(ck))
		vxAssert(tag+"-at-or-after-position", after(ck))
		if afterSeek {
			vxAssertK(tag+"-live-with-value", vxAnd(ref.live, vxValIs(v, ref.v)), "C09-optimize-after-skip", skipAtStart)
		} else {
			vxAssert(tag+"-live-with-value", vxAnd(ref.live, vxValIs(v, ref.v)))
		}
		// nothing live was skipped
		ok := true
		for _, ents := range layers {
			for _, e := range ents {
				skipped := vxAnd(vxAnd(inRange(e.k), after(e.k)), vxKeyLess(e.k, ck))
				ok = vxAnd(ok, vxImplies(skipped, vxNot(vxRefGet(e.k, layers...).live)))
			}
		}
		if afterSeek {
			vxAssertK(tag+"-nothing-skipped", ok, "C09-optimize-after-skip", skipAtStart)
		} else {
			vxAssert(tag+"-nothing-skipped", ok)
		}
		hasLB, lb, lbExcl = true, ck, false
	}
	check("start")
	for _, ents := range layers {
		for _, e := range ents {
			dead := vxAnd(inRange(e.k), vxNot(vxRefGet(e.k, layers...).live))
			if !done {
				dead = vxAnd(dead, vxKeyLess(e.k, lb))
			}
			skipAtStart = vxOr(skipAtStart, dead)
		}
	}
	tags := []string{"call1", "call2", "call3", "call4"}
	for c := 0; c < calls; c++ {
		if vxChoose(2) == 0 {
			nerr := it.Next()
			if done {
				vxAssert(tags[c]+"-next-stays-done", nerr == ErrIteratorDone)
			} else {
				lbExcl = true // position moves strictly past the current key
				vxAssert(tags[c]+"-next-err", nerr == nil || nerr == ErrIteratorDone)
			}
			check(tags[c])
		} else {
			X := vxNewKey(kl)
			xb := vxKeyBytes(X)
			serr := it.SeekTo(xb)
			afterSeek = true
			vxAssert(tags[c]+"-seek-err", serr == nil || serr == ErrIteratorDone)
			// expected position: max(X, start), inclusive
			hasLB, lbExcl, done = true, false, false
			lb = X
			if hasS {
				useS := vxKeyLess(X, S)
				for j := 0; j < vxKL; j++ {
					lb.b[j] = vxIteU8(useS, S.b[j], X.b[j])
				}
				lb.n = vxIteInt(useS, S.n, X.n)
			}
			check(tags[c])
			if serr == ErrIteratorDone {
				vxAssert(tags[c]+"-seek-done-consistent", done)
			}
		}
	}
	it.Close()
}

func init() { vxRegister("vxH_C09_seekAfterSkip", vxH_C09_seekAfterSkip) }

// vxH_C09_seekAfterSkip: a one-operation newer segment over a
// two-operation older segment (or lower level), unbounded iterator, one
// SeekTo(x) - the shape in which the start position may have skipped a
// tombstone and exhausted a cursor before the seek.
func vxH_C09_seekAfterSkip() {
	kl, vl := 1, 1
	opts := &CollectionOptions{}
	top := vxNewEnts(1, kl, vl, vxOpsSetDel)
	bot := vxNewEnts(2, kl, vl, vxOpsSetDel)
	ss := &segmentStack{options: opts, refs: 1}
	if vxChoose(2) == 0 {
		ss.a = []Segment{vxSegOf(bot), vxSegOf(top)}
	} else {
		ll := &segmentStack{options: opts, refs: 1, a: []Segment{vxSegOf(bot)}}
		ss.a = []Segment{vxSegOf(top)}
		ss.lowerLevelSnapshot = NewSnapshotWrapper(ll, nil)
	}
	layers := [][]vxEnt{bot, top}
	it, err := ss.StartIterator(nil, nil, IteratorOptions{})
	vxAssert("start-ok", err == nil)
	X := vxNewKey(kl)
	serr := it.SeekTo(vxKeyBytes(X))
	vxAssert("seek-err", serr == nil || serr == ErrIteratorDone)
	k, v, cerr := it.Current()
	if cerr == ErrIteratorDone {
		ok := true
		for _, ents := range layers {
			for _, e := range ents {
				ok = vxAnd(ok, vxImplies(vxKeyLE(X, e.k), vxNot(vxRefGet(e.k, layers...).live)))
			}
		}
		vxAssert("seek-done-means-exhausted", ok)
		return
	}
	vxAssert("seek-current-ok", cerr == nil)
	vxObserveBytes("seek-key", k)
	ck := vxKeyOf(k)
	ref := vxRefGet(ck, layers...)
	vxAssert("seek-at-or-after", vxKeyLE(X, ck))
	vxAssert("seek-live-with-value", vxAnd(ref.live, vxValIs(v, ref.v)))
	vxAssert("seek-nothing-skipped", vxNoLiveBetween(false, X, true, ck, func(k vxKey) bool { return vxKeyLE(X, k) }, layers...))
	it.Close()
}

func init() { vxRegister("vxH_C09_seeks", vxH_C09_seeks) }

// vxH_C09_seeks: two consecutive SeekTo calls (any mixture of forward,
// backward, equal, beyond the end) on (a) a single two-operation segment
// with tombstones (the iteratorSingle fast path) or (b) two one-operation
// segments (the heap iterator), in the thorough tier with a start bound; after each
// seek Current is the smallest live in-range key >= max(x, start).
func vxH_C09_seeks() {
	kl, vl := 1, 1
	opts := &CollectionOptions{}
	ss := &segmentStack{options: opts, refs: 1}
	var layers [][]vxEnt
	shape := vxChoose(3)
	if shape == 0 {
		ents := vxNewEnts(2, kl, vl, vxOpsSetDel)
		layers = append(layers, ents)
		ss.a = append(ss.a, vxSegOf(ents))
	} else if shape == 2 {
		// one-op segment over a two-op lower level (heap iterator with a
		// lower-level cursor that has to follow every restart)
		llEnts := vxNewEnts(2, kl, vl, vxOpsSet)
		top := vxNewEnts(1, kl, vl, vxOpsSetDel)
		ll := &segmentStack{options: opts, refs: 1, a: []Segment{vxSegOf(llEnts)}}
		ss.a = append(ss.a, vxSegOf(top))
		ss.lowerLevelSnapshot = NewSnapshotWrapper(ll, nil)
		layers = append(layers, llEnts, top)
	} else {
		for s := 0; s < 2; s++ {
			ents := vxNewEnts(1, kl, vl, vxOpsSetDel)
			layers = append(layers, ents)
			ss.a = append(ss.a, vxSegOf(ents))
		}
	}
	DefaultNaiveSeekToMaxTries = 1
	hasS := false
	var S vxKey
	var sb []byte
	if vxTier() == 1 || shape == 0 {
		// quick tier: a start bound on the single-segment path only
		hasS, S, sb = vxOptKey(kl)
	}
	it, err := ss.StartIterator(sb, nil, IteratorOptions{})
	vxAssert("start-ok", err == nil)
	inRange := func(k vxKey) bool {
		if hasS {
			return vxKeyLE(S, k)
		}
		return true
	}
	for n, tag := range []string{"seek1", "seek2"} {
		_ = n
		X := vxNewKey(kl)
		serr := it.SeekTo(vxKeyBytes(X))
		vxAssert(tag+"-err", serr == nil || serr == ErrIteratorDone)
		lb := X
		if hasS {
			useS := vxKeyLess(X, S)
			for j := 0; j < vxKL; j++ {
				lb.b[j] = vxIteU8(useS, S.b[j], X.b[j])
			}
			lb.n = vxIteInt(useS, S.n, X.n)
		}
		k, v, cerr := it.Current()
		if cerr == ErrIteratorDone {
			ok := true
			for _, ents := range layers {
				for _, e := range ents {
					ok = vxAnd(ok, vxImplies(vxAnd(inRange(e.k), vxKeyLE(lb, e.k)), vxNot(vxRefGet(e.k, layers...).live)))
				}
			}
			vxAssert(tag+"-done-means-exhausted", ok)
			vxAssert(tag+"-done-consistent", serr == ErrIteratorDone)
			continue
		}
		vxAssert(tag+"-current-ok", cerr == nil)
		vxAssert(tag+"-key-not-nil", k != nil || len(k) == 0)
		vxObserveBytes(tag+"-key", k)
		ck := vxKeyOf(k)
		ref := vxRefGet(ck, layers...)
		vxAssert(tag+"-in-range-and-at-or-after", vxAnd(inRange(ck), vxKeyLE(lb, ck)))
		vxAssert(tag+"-live-with-value", vxAnd(ref.live, vxValIs(v, ref.v)))
		vxAssert(tag+"-nothing-skipped", vxNoLiveBetween(false, lb, true, ck, func(k vxKey) bool { return vxAnd(inRange(k), vxKeyLE(lb, k)) }, layers...))
		if tag == "seek2" {
			// and the iteration continues correctly from there
			nerr := it.Next()
			vxAssert("next-err", nerr == nil || nerr == ErrIteratorDone)
			k2, v2, c2 := it.Current()
			if c2 == ErrIteratorDone {
				ok := true
				for _, ents := range layers {
					for _, e := range ents {
						ok = vxAnd(ok, vxImplies(vxAnd(inRange(e.k), vxKeyLess(ck, e.k)), vxNot(vxRefGet(e.k, layers...).live)))
					}
				}
				vxAssert("next-done-means-exhausted", ok)
			} else {
				vxAssert("next-current-ok", c2 == nil)
				nk := vxKeyOf(k2)
				nref := vxRefGet(nk, layers...)
				vxAssert("next-after-current", vxKeyLess(ck, nk))
				vxAssert("next-live-with-value", vxAnd(nref.live, vxValIs(v2, nref.v)))
				vxAssert("next-nothing-skipped", vxNoLiveBetween(true, ck, true, nk, inRange, layers...))
			}
		}
	}
	it.Close()
}
