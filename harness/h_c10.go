package moss

// C10 / C01(a): read paths on an arbitrary well-formed stack.

func init() {
	vxRegister("vxH_C01_stackGet", vxH_C01_stackGet)
}

// vxBoundsA returns (segments, ops per segment, key len, val len) for the
// pure stack harnesses.
func vxBoundsA() (nseg, nops, kl, vl int) {
	if vxTier() == 0 {
		return 2, 2, 1, 1
	}
	return 3, 2, 2, 1
}

// vxH_C01_stackGet: segmentStack.Get on an arbitrary stack of sorted
// segments equals the newest-wins reference for every probe key.
func vxH_C01_stackGet() {
	nseg, nops, kl, vl := vxBoundsA()
	ss := &segmentStack{options: &CollectionOptions{}}
	var layers [][]vxEnt
	for s := 0; s < nseg; s++ {
		n := 1 + vxChoose(nops)
		ents := vxNewEnts(n, kl, vl, vxOpsSetDel)
		layers = append(layers, ents)
		ss.a = append(ss.a, vxSegOf(ents))
	}
	K := vxNewKey(kl)
	kb := vxKeyBytes(K)
	got, err := ss.Get(kb, ReadOptions{})
	vxAssert("get-no-error", err == nil)
	ref := vxRefGet(K, layers...)
	vxObserveBytes("got", got)
	vxAssert("get-matches-reference", vxGotIs(got, ref))
}

// vxColl is an arbitrary well-formed collection state together with the
// reference view of it (sections oldest first).
type vxColl struct {
	c      *collection
	layers [][]vxEnt // oldest first: lower level, clean, base, mid, top
}

// vxMkStack makes a stack of nseg segments with 1..nops ops each.
func vxMkStack(opts *CollectionOptions, nseg, nops, kl, vl, alphabet int) (*segmentStack, [][]vxEnt) {
	ss := &segmentStack{options: opts, refs: 1}
	var layers [][]vxEnt
	for s := 0; s < nseg; s++ {
		n := nops
		if nops > 1 {
			n = 1 + vxChoose(nops)
		}
		ents := vxNewEnts(n, kl, vl, alphabet)
		layers = append(layers, ents)
		ss.a = append(ss.a, vxSegOf(ents))
	}
	return ss, layers
}

// vxMkColl builds an unstarted collection whose five sections each hold 0
// or 1 stacks of up to nseg segments, chosen symbolically. present is a
// bit mask restricting which sections may be non-empty.
func vxMkColl(maxSecs, nseg, nops, kl, vl, alphabet int, mo MergeOperator) *vxColl {
	co := CollectionOptions{MergeOperator: mo}
	ci, _ := NewCollection(co)
	c := ci.(*collection)
	vc := &vxColl{c: c}
	used := 0
	for sec := 0; sec < 5; sec++ {
		if used >= maxSecs || vxChoose(2) == 0 {
			continue
		}
		used++
		ss, layers := vxMkStack(c.options, nseg, nops, kl, vl, alphabet)
		switch sec {
		case 0:
			c.lowerLevelSnapshot = NewSnapshotWrapper(ss, nil)
		case 1:
			c.stackClean = ss
		case 2:
			c.stackDirtyBase = ss
		case 3:
			c.stackDirtyMid = ss
		case 4:
			c.stackDirtyTop = ss
		}
		vc.layers = append(vc.layers, layers...)
	}
	return vc
}

func init() {
	vxRegister("vxH_C10_readPaths", vxH_C10_readPaths)
	vxRegister("vxH_C10_iterAgree", vxH_C10_iterAgree)
}

// vxH_C10_readPaths: Collection.Get and Snapshot.Get agree with each other
// and with the reference, for both NoCopyValue settings, on every
// placement of K's operations over the five sections.
func vxH_C10_readPaths() {
	kl, vl, nops, maxSecs := 1, 1, 1, 3
	if vxTier() == 1 {
		maxSecs = 5
	}
	vc := vxMkColl(maxSecs, 1, nops, kl, vl, vxOpsSetDel, nil)
	K := vxNewKey(kl)
	kb := vxKeyBytes(K)
	ref := vxRefGet(K, vc.layers...)
	ro := ReadOptions{NoCopyValue: vxChoose(2) == 1}

	snap, err := vc.c.Snapshot()
	vxAssert("snapshot-ok", err == nil)
	sgot, err := snap.Get(kb, ro)
	vxAssert("snapshot-get-ok", err == nil)
	vxObserveBytes("snapshot-get", sgot)
	vxAssert("snapshot-get-matches-reference", vxGotIs(sgot, ref))

	cgot, err := vc.c.Get(kb, ro)
	vxAssert("collection-get-ok", err == nil)
	vxObserveBytes("collection-get", cgot)
	// known finding: a tombstone in a newer section does not stop
	// Collection.Get from consulting older sections.
	vxAssertK("collection-get-matches-reference", vxGotIs(cgot, ref),
		"C10-tombstone-not-shadowing", vxAnd(ref.found, vxNot(ref.live)))
	snap.Close()
}

// vxH_C10_iterAgree: the entry (or absence) at K when iterating a fresh
// snapshot from K agrees with Snapshot.Get.
func vxH_C10_iterAgree() {
	kl, vl, nops, maxSecs := 1, 1, 1, 3
	if vxTier() == 1 {
		nops = 2
	}
	vc := vxMkColl(maxSecs, 1, nops, kl, vl, vxOpsSetDel, nil)
	K := vxNewKey(kl)
	kb := vxKeyBytes(K)
	ref := vxRefGet(K, vc.layers...)
	snap, err := vc.c.Snapshot()
	vxAssert("snapshot-ok", err == nil)
	it, err := snap.StartIterator(kb, nil, IteratorOptions{})
	vxAssert("iter-ok", err == nil)
	ik, iv, ierr := it.Current()
	if ierr == ErrIteratorDone {
		vxAssert("iter-done-means-absent", vxNot(ref.live))
	} else {
		vxAssert("iter-current-ok", ierr == nil)
		vxObserveBytes("iter-key", ik)
		atK := vxKeyEq(vxKeyOf(ik), K)
		vxAssert("iter-entry-iff-live", vxAnd(vxImplies(atK, vxAnd(ref.live, vxValIs(iv, ref.v))), vxImplies(ref.live, atK)))
	}
	it.Close()
	snap.Close()
}
