package moss

// C10 / C01(a): read paths on an arbitrary well-formed stack.

func init() {
	vxRegister("vxH_C01_stackGet", vxH_C01_stackGet)
}

// vxBoundsA returns (segments, ops per segment, key len, val len) for the
// pure stack harnesses.
func vxBoundsA() (nseg, nops, kl, vl int) {
	if vxTier() == 0 {
		return 2, 2, 1, 1
	}
	return 3, 2, 1, 1
}

// vxH_C01_stackGet: segmentStack.Get on an arbitrary stack of sorted
// segments equals the newest-wins reference for every probe key.
func vxH_C01_stackGet() {
	nseg, nops, kl, vl := vxBoundsA()
	ss := &segmentStack{options: &CollectionOptions{}}
	var layers [][]vxEnt
	for s := 0; s < nseg; s++ {
		n := 1 + vxChoose(nops)
		ents := vxNewEnts(n, kl, vl, vxOpsSetDel)
		layers = append(layers, ents)
		ss.a = append(ss.a, vxSegOf(ents))
	}
	K := vxNewKey(kl)
	kb := vxKeyBytes(K)
	got, err := ss.Get(kb, ReadOptions{})
	vxAssert("get-no-error", err == nil)
	ref := vxRefGet(K, layers...)
	vxObserveBytes("got", got)
	vxAssert("get-matches-reference", vxGotIs(got, ref))
}

// vxColl is an arbitrary well-formed collection state together with the
// reference view of it (sections oldest first).
type vxColl struct {
	c      *collection
	layers [][]vxEnt // oldest first: lower level, clean, base, mid, top
	nLower int       // how many of them are the lower level's
}

// vxMkStack makes a stack of nseg segments with 1..nops ops each.
func vxMkStack(opts *CollectionOptions, nseg, nops, kl, vl, alphabet int) (*segmentStack, [][]vxEnt) {
	ss := &segmentStack{options: opts, refs: 1}
	var layers [][]vxEnt
	for s := 0; s < nseg; s++ {
		n := nops
		if nops > 1 {
			n = 1 + vxChoose(nops)
		}
		ents := vxNewEnts(n, kl, vl, alphabet)
		layers = append(layers, ents)
		ss.a = append(ss.a, vxSegOf(ents))
	}
	return ss, layers
}

// vxMkColl builds an unstarted collection whose five sections each hold 0
// or 1 stacks of up to nseg segments, chosen symbolically. present is a
// bit mask restricting which sections may be non-empty.
func vxMkColl(maxSecs, nseg, nops, kl, vl, alphabet int, mo MergeOperator) *vxColl {
	co := CollectionOptions{MergeOperator: mo}
	ci, _ := NewCollection(co)
	c := ci.(*collection)
	vc := &vxColl{c: c}
	used := 0
	for sec := 0; sec < 5; sec++ {
		if used >= maxSecs || vxChoose(2) == 0 {
			continue
		}
		used++
		ss, layers := vxMkStack(c.options, nseg, nops, kl, vl, alphabet)
		switch sec {
		case 0:
			c.lowerLevelSnapshot = NewSnapshotWrapper(ss, nil)
			vc.nLower = len(layers)
		case 1:
			c.stackClean = ss
		case 2:
			c.stackDirtyBase = ss
		case 3:
			c.stackDirtyMid = ss
		case 4:
			c.stackDirtyTop = ss
		}
		vc.layers = append(vc.layers, layers...)
	}
	return vc
}

func init() {
	vxRegister("vxH_C10_readPaths", vxH_C10_readPaths)
	vxRegister("vxH_C10_iterAgree", vxH_C10_iterAgree)
}

// vxH_C10_readPaths: Collection.Get and Snapshot.Get agree with each other
// and with the reference, for both NoCopyValue settings, on every
// placement of K's operations over the five sections.
func vxH_C10_readPaths() {
	kl, vl, nops, maxSecs := 1, 1, 1, 3
	if vxTier() == 1 {
		maxSecs = 5
	}
	vc := vxMkColl(maxSecs, 1, nops, kl, vl, vxOpsSetDel, nil)
	K := vxNewKey(kl)
	kb := vxKeyBytes(K)
	ref := vxRefGet(K, vc.layers...)
	ro := ReadOptions{NoCopyValue: vxChoose(2) == 1}

	snap, err := vc.c.Snapshot()
	vxAssert("snapshot-ok", err == nil)
	sgot, err := snap.Get(kb, ro)
	vxAssert("snapshot-get-ok", err == nil)
	vxObserveBytes("snapshot-get", sgot)
	vxAssert("snapshot-get-matches-reference", vxGotIs(sgot, ref))

	cgot, err := vc.c.Get(kb, ro)
	vxAssert("collection-get-ok", err == nil)
	vxObserveBytes("collection-get", cgot)
	// known finding: a tombstone in a newer section does not stop
	// Collection.Get from consulting older sections.
	vxAssertK("collection-get-matches-reference", vxGotIs(cgot, ref),
		"C10-tombstone-not-shadowing", vxAnd(ref.found, vxNot(ref.live)))
	snap.Close()
}

// vxH_C10_iterAgree: the entry (or absence) at K when iterating a fresh
// snapshot from K agrees with Snapshot.Get.
func vxH_C10_iterAgree() {
	kl, vl, nops, maxSecs := 1, 1, 1, 3
	if vxTier() == 1 {
		nops = 2
	}
	vc := vxMkColl(maxSecs, 1, nops, kl, vl, vxOpsSetDel, nil)
	K := vxNewKey(kl)
	kb := vxKeyBytes(K)
	ref := vxRefGet(K, vc.layers...)
	snap, err := vc.c.Snapshot()
	vxAssert("snapshot-ok", err == nil)
	it, err := snap.StartIterator(kb, nil, IteratorOptions{})
	vxAssert("iter-ok", err == nil)
	ik, iv, ierr := it.Current()
	if ierr == ErrIteratorDone {
		vxAssert("iter-done-means-absent", vxNot(ref.live))
	} else {
		vxAssert("iter-current-ok", ierr == nil)
		vxObserveBytes("iter-key", ik)
		atK := vxKeyEq(vxKeyOf(ik), K)
		vxAssert("iter-entry-iff-live", vxAnd(vxImplies(atK, vxAnd(ref.live, vxValIs(iv, ref.v))), vxImplies(ref.live, atK)))
	}
	it.Close()
	snap.Close()
}

func init() { vxRegister("vxH_C10_copyOut", vxH_C10_copyOut) }

// vxFirstMO is a merge operator that allocates nothing: the existing value
// wins, otherwise the first operand (first-write-wins; "max"/"min"
// operators have the same shape). Whatever it returns aliases its inputs.
type vxFirstMO struct{}

func (vxFirstMO) Name() string { return "vxFirstMO" }

func (vxFirstMO) FullMerge(key, existing []byte, operands [][]byte) ([]byte, bool) {
	if existing != nil {
		return existing, true
	}
	if len(operands) > 0 {
		return operands[0], true
	}
	return nil, true
}

func (vxFirstMO) PartialMerge(key, l, r []byte) ([]byte, bool) { return l, true }

// vxH_C10_copyOut: values returned by copying Gets (Collection.Get,
// Snapshot.Get, store Snapshot.Get) are read again after the snapshots, the
// collection and the store are closed: they are intact. The key's base
// value is persisted (optionally by an earlier session, so it is only in
// the mapped file); on top of it sits nothing, a Set, a Merge (under the
// allocation-free operator) or a Del, merged / persisted or not.
func vxH_C10_copyOut() {
	fs := vxNewFS()
	so := vxStoreOptions(fs)
	so.CollectionOptions.MergeOperator = vxFirstMO{}
	so.CollectionOptions.CachePersisted = vxChoose(2) == 1
	po := StorePersistOptions{CompactionConcern: CompactionConcern(vxChoose(3))}
	store, coll, err := OpenStoreCollection(fs.dir, so, po)
	vxAssert("open-ok", err == nil)
	kb := []byte{'k'}
	v0 := vxU8()
	b, _ := coll.NewBatch(1, 8)
	b.Set(kb, []byte{v0, v0})
	vxAssert("executebatch-ok", coll.ExecuteBatch(b, WriteOptions{}) == nil)
	b.Close()
	vxDrain(coll)
	if vxChoose(2) == 1 {
		coll.Close()
		store.Close()
		vxQuiesce()
		store, coll, err = OpenStoreCollection(fs.dir, so, po)
		vxAssert("reopen-ok", err == nil)
	}
	op := vxChoose(4) // 0 nothing, 1 Set, 2 Merge, 3 Del
	if op != 0 {
		b, _ = coll.NewBatch(1, 8)
		switch op {
		case 1:
			b.Set(kb, []byte{vxU8()})
		case 2:
			b.Merge(kb, []byte{vxU8()})
		case 3:
			b.Del(kb)
		}
		vxAssert("executebatch-ok", coll.ExecuteBatch(b, WriteOptions{}) == nil)
		b.Close()
		switch vxChoose(3) {
		case 1:
			coll.(*collection).NotifyMerger("go", true)
		case 2:
			vxDrain(coll)
		}
	}
	snap, serr := coll.Snapshot()
	vxAssert("snapshot-ok", serr == nil)
	ssnap, sserr := store.Snapshot()
	vxAssert("store-snapshot-ok", sserr == nil)
	var got, want [3][]byte
	got[0], err = coll.Get(kb, ReadOptions{})
	vxAssert("collection-get-ok", err == nil)
	got[1], err = snap.Get(kb, ReadOptions{})
	vxAssert("snapshot-get-ok", err == nil)
	got[2], err = ssnap.Get(kb, ReadOptions{})
	vxAssert("store-snapshot-get-ok", err == nil)
	for i := range got {
		if got[i] != nil {
			want[i] = append([]byte{}, got[i]...)
		}
	}
	vxAssert("collection-and-snapshot-agree", (got[0] == nil) == (got[1] == nil) && vxBytesEq(got[0], got[1]))
	snap.Close()
	ssnap.Close()
	coll.Close()
	store.Close()
	vxQuiesce()
	vxObserveInt("mappings-left", fs.liveRegions())
	for i := range got {
		if got[i] != nil {
			vxAssert("copied-value-intact-after-close", vxBytesEq(got[i], want[i]))
		}
	}
}

func init() { vxRegister("vxH_C10_options", vxH_C10_options) }

// vxH_C10_options: every read option combination on a small directed
// state: the key's base value in the lower level, above it two unmerged
// batches (so the multi-cursor iterator is used): one on another key, one
// with a symbolic operation (Set / Merge / Del / none) on the key. With
// SkipLowerLevel and NoCopyValue chosen symbolically, Snapshot.Get, the
// iterator entry and (without SkipLowerLevel) Collection.Get agree with
// the reference fold over what the options leave visible.
func vxH_C10_options() {
	base := &segment{}
	var eb vxEnt
	eb.op, eb.k.n, eb.k.b[0], eb.v.n, eb.v.b[0] = OperationSet, 1, 'k', 1, vxU8()
	base.mutate(OperationSet, vxKeyBytes(eb.k), vxValBytes(eb.v))
	co := CollectionOptions{MergeOperator: vxAppendMO{}}
	ci, err := NewCollection(co)
	vxAssert("new-ok", err == nil)
	c := ci.(*collection)
	ll := &segmentStack{options: c.options, refs: 1, a: []Segment{base}}
	c.lowerLevelSnapshot = NewSnapshotWrapper(ll, nil)
	var ez vxEnt
	ez.op, ez.k.n, ez.k.b[0], ez.v.n, ez.v.b[0] = OperationSet, 1, 'z', 1, 1
	vxExec(c, []vxEnt{ez})
	upper := [][]vxEnt{{ez}}
	if op := vxChoose(4); op != 3 {
		var e vxEnt
		e.k.n, e.k.b[0] = 1, 'k'
		switch op {
		case 0:
			e.op, e.v.n, e.v.b[0] = OperationSet, 1, vxU8()
		case 1:
			e.op, e.v.n, e.v.b[0] = OperationMerge, 1, vxU8()
		case 2:
			e.op = OperationDel
		}
		vxExec(c, []vxEnt{e})
		upper = append(upper, []vxEnt{e})
	}
	skip := vxChoose(2) == 1
	nocopy := vxChoose(2) == 1
	var K vxKey
	K.n, K.b[0] = 1, 'k'
	kb := vxKeyBytes(K)
	var layers [][]vxEnt
	if !skip {
		layers = append(layers, []vxEnt{eb})
	}
	layers = append(layers, upper...)
	ref := vxRefFold(K, layers...)
	snap, serr := c.Snapshot()
	vxAssert("snapshot-ok", serr == nil)
	g, gerr := snap.Get(kb, ReadOptions{SkipLowerLevel: skip, NoCopyValue: nocopy})
	vxAssert("get-ok", gerr == nil)
	vxObserveBytes("get", g)
	vxAssert("snapshot-get-equals-fold", vxFoldIs(g, ref))
	it, ierr := snap.StartIterator(kb, nil, IteratorOptions{SkipLowerLevel: skip})
	vxAssert("iter-ok", ierr == nil)
	ik, iv, cerr := it.Current()
	if cerr == ErrIteratorDone {
		vxAssert("iter-done-means-absent", vxNot(ref.live))
	} else {
		vxObserveBytes("iter-val", iv)
		atK := vxKeyEq(vxKeyOf(ik), K)
		vxAssert("iter-entry-equals-fold", vxAnd(vxImplies(atK, vxFoldIs(iv, ref)), vxImplies(ref.live, atK)))
	}
	it.Close()
	snap.Close()
	if !skip {
		cg, cgerr := c.Get(kb, ReadOptions{NoCopyValue: nocopy})
		vxAssert("collection-get-ok", cgerr == nil)
		vxAssert("collection-get-equals-fold", vxFoldIs(cg, ref))
	}
}
