package moss

// C11: child collections are isolated, atomic with their batch, deletable.

func init() { vxRegister("vxH_C11_children", vxH_C11_children) }

// vxNode is the reference for one collection of the tree.
type vxNode struct {
	layers [][]vxEnt
	kids   map[string]*vxNode
}

func vxNewNode() *vxNode { return &vxNode{kids: map[string]*vxNode{}} }

// vxCheckTree compares a snapshot with the reference tree for probe K.
func vxCheckTree(tag string, snap Snapshot, ref *vxNode, K vxKey, kb []byte, names []string, delNotDurable map[string]bool) {
	got, err := snap.Get(kb, ReadOptions{})
	vxAssert(tag+"-get-ok", err == nil)
	vxAssert(tag+"-parent-content", vxGotIs(got, vxRefGet(K, ref.layers...)))
	listed, err := snap.ChildCollectionNames()
	vxAssert(tag+"-names-ok", err == nil)
	for _, n := range names {
		_, want := ref.kids[n]
		has := false
		for _, l := range listed {
			if l == n {
				has = true
			}
		}
		if want {
			vxAssert(tag+"-existing-child-listed", has)
		} else {
			vxAssertK(tag+"-deleted-child-not-listed", !has, "C11-child-delete-alone-not-persisted", delNotDurable[n])
		}
		cs, cerr := snap.ChildCollectionSnapshot(n)
		vxAssert(tag+"-child-snapshot-ok", cerr == nil)
		if !want {
			vxAssertK(tag+"-deleted-child-has-no-snapshot", cs == nil, "C11-child-delete-alone-not-persisted", delNotDurable[n])
			continue
		}
		vxAssert(tag+"-existing-child-has-snapshot", cs != nil)
		if cs == nil {
			continue
		}
		cgot, gerr := cs.Get(kb, ReadOptions{})
		vxAssert(tag+"-child-get-ok", gerr == nil)
		vxObserveBytes(tag+"-child-"+n, cgot)
		vxAssert(tag+"-child-content-isolated", vxGotIs(cgot, vxRefGet(K, ref.kids[n].layers...)))
		cs.Close()
		// a child snapshot opened again on the same (still open) parent
		// snapshot sees the same content
		cs2, cerr2 := snap.ChildCollectionSnapshot(n)
		vxAssert(tag+"-child-snapshot-again-ok", cerr2 == nil && cs2 != nil)
		if cs2 != nil {
			cgot2, gerr2 := cs2.Get(kb, ReadOptions{})
			vxAssert(tag+"-child-get-again-ok", gerr2 == nil)
			vxAssert(tag+"-child-content-stable-across-child-snapshots", vxGotIs(cgot2, vxRefGet(K, ref.kids[n].layers...)))
			cs2.Close()
		}
	}
}

// vxFixedEnt: an operation on the fixed key "k" with a symbolic 1-byte
// value; Set or Del chosen symbolically. Child-collection properties are
// structural, so the same key is used in every collection: any leak
// between collections, stale incarnation or lost batch shows as a wrong
// value for "k".
func vxFixedEnt() []vxEnt {
	var e vxEnt
	e.k.n = 1
	e.k.b[0] = 'k'
	if vxChoose(2) == 1 {
		e.k.b[0] = 'j'
	}
	if vxChoose(2) == 0 {
		e.op = OperationSet
		e.v.n = 1
		e.v.b[0] = vxU8()
	} else {
		e.op = OperationDel
	}
	return []vxEnt{e}
}

// vxFixedSet: Set("k", <symbolic byte>).
func vxFixedSet() []vxEnt {
	var e vxEnt
	e.k.n = 1
	e.k.b[0] = 'k'
	e.op = OperationSet
	e.v.n = 1
	e.v.b[0] = vxU8()
	return []vxEnt{e}
}

func init() { vxRegister("vxH_C11_deleteRecreate", vxH_C11_deleteRecreate) }

// vxH_C11_deleteRecreate: directed history on a store-backed collection:
// write child a, persist, delete a (optionally with a parent write),
// optionally persist, optionally recreate a with another key, optionally
// persist, then reopen (or not) and check names / isolation / emptiness of
// the recreated child.
func vxH_C11_deleteRecreate() {
	backed := vxChoose(2) == 1
	var fs *vxFS
	var so StoreOptions
	var po StorePersistOptions
	var store *Store
	var coll Collection
	var err error
	if backed {
		fs = vxNewFS()
		so = vxStoreOptions(fs)
		so.CollectionOptions.CachePersisted = vxChoose(2) == 1
		po = StorePersistOptions{CompactionConcern: CompactionConcern(vxChoose(3))}
		store, coll, err = OpenStoreCollection(fs.dir, so, po)
		vxAssert("open-ok", err == nil)
	} else {
		coll, err = NewCollection(CollectionOptions{})
		vxAssert("new-ok", err == nil)
		coll.Start()
	}
	ref := vxNewNode()
	names := []string{"a"}
	delNotDurable := map[string]bool{}
	exec := func(parent bool, child int) { // child: 0 none, 1 write, 2 delete
		b, berr := coll.NewBatch(4, 64)
		vxAssert("newbatch-ok", berr == nil)
		if parent {
			ents := vxFixedSet()
			vxFillBatch(b, ents)
			ref.layers = append(ref.layers, ents)
		}
		switch child {
		case 1:
			cb, cerr := b.NewChildCollectionBatch("a", BatchOptions{TotalOps: 2, TotalKeyValBytes: 16})
			vxAssert("childbatch-ok", cerr == nil)
			ents := vxFixedEnt()
			vxFillBatch(cb, ents)
			if ref.kids["a"] == nil {
				ref.kids["a"] = vxNewNode()
			}
			ref.kids["a"].layers = append(ref.kids["a"].layers, ents)
			delNotDurable["a"] = false
		case 2:
			vxAssert("delchild-ok", b.DelChildCollection("a") == nil)
			delete(ref.kids, "a")
			delNotDurable["a"] = backed && !parent
		}
		vxAssert("executebatch-ok", coll.ExecuteBatch(b, WriteOptions{}) == nil)
		b.Close()
	}
	// settle: persist when store-backed, one merger cycle when in memory
	settle := func() {
		if backed {
			vxDrain(coll)
		} else {
			coll.(*collection).NotifyMerger("go", true)
		}
	}
	reopen := func() {
		vxDrain(coll)
		coll.Close()
		store.Close()
		vxQuiesce()
		store, coll, err = OpenStoreCollection(fs.dir, so, po)
		vxAssert("reopen-ok", err == nil)
	}
	exec(vxChoose(2) == 1, 1)
	settle()
	if backed && vxChoose(2) == 1 {
		reopen()
	}
	exec(vxChoose(2) == 1, 2)
	if vxChoose(2) == 1 {
		settle()
	}
	if vxChoose(2) == 1 {
		exec(false, 1) // recreate
		if vxChoose(2) == 1 {
			settle()
		}
	}
	if backed && vxChoose(2) == 1 {
		reopen()
	}
	var K, J vxKey
	K.n, J.n = 1, 1
	K.b[0], J.b[0] = 'k', 'j'
	snap, serr := coll.Snapshot()
	vxAssert("snapshot-ok", serr == nil)
	vxCheckTree("final", snap, ref, K, vxKeyBytes(K), names, delNotDurable)
	vxCheckTree("final2", snap, ref, J, vxKeyBytes(J), names, delNotDurable)
	snap.Close()
	coll.Close()
	if backed {
		store.Close()
	}
}

func vxH_C11_children() {
	steps := 3
	names := []string{"a"}
	if vxTier() == 1 {
		steps = 4
	}
	backed := vxChoose(2) == 1
	var fs *vxFS
	var so StoreOptions
	var po StorePersistOptions
	var store *Store
	var coll Collection
	var err error
	if backed {
		fs = vxNewFS()
		so = vxStoreOptions(fs)
		po = StorePersistOptions{CompactionConcern: CompactionConcern(vxChoose(3))}
		store, coll, err = OpenStoreCollection(fs.dir, so, po)
		vxAssert("open-ok", err == nil)
	} else {
		coll, err = NewCollection(CollectionOptions{})
		vxAssert("new-ok", err == nil)
		coll.Start()
	}
	ref := vxNewNode()
	// known finding C11-child-delete-alone-not-persisted: a deletion of a
	// child collection reaches the store only together with a later
	// non-empty persistence round.
	delNotDurable := map[string]bool{}
	dataSinceDel := map[string]bool{}
	var K vxKey
	K.n = 1
	K.b[0] = 'k'
	kb := vxKeyBytes(K)
	nb := 0
	for s := 0; s < steps; s++ {
		kind := 1
		if nb > 0 {
			kind = vxChoose(5)
		}
		if kind == 0 {
			break
		}
		switch kind {
		case 1: // a batch
			b, berr := coll.NewBatch(4, 64)
			vxAssert("newbatch-ok", berr == nil)
			touched := false
			if vxChoose(2) == 1 { // parent write
				ents := vxFixedSet()
				vxFillBatch(b, ents)
				ref.layers = append(ref.layers, ents)
				touched = true
				for _, n := range names {
					dataSinceDel[n] = true
				}
			}
			for _, n := range names {
				switch vxChoose(3) {
				case 1: // write to child n (creates it if needed)
					cb, cerr := b.NewChildCollectionBatch(n, BatchOptions{TotalOps: 2, TotalKeyValBytes: 16})
					vxAssert("childbatch-ok", cerr == nil)
					ents := vxFixedEnt()
					vxFillBatch(cb, ents)
					if ref.kids[n] == nil {
						ref.kids[n] = vxNewNode()
					}
					ref.kids[n].layers = append(ref.kids[n].layers, ents)
					touched = true
					delNotDurable[n] = false
					for _, n2 := range names {
						dataSinceDel[n2] = true
					}
				case 2: // delete child n
					vxAssert("delchild-ok", b.DelChildCollection(n) == nil)
					delete(ref.kids, n)
					touched = true
					delNotDurable[n] = backed
					dataSinceDel[n] = false
				}
			}
			if !touched {
				continue
			}
			vxAssert("executebatch-ok", coll.ExecuteBatch(b, WriteOptions{}) == nil)
			b.Close()
			nb++
		case 2:
			coll.(*collection).NotifyMerger("go", true)
		case 3:
			vxDrain(coll)
			for _, n := range names {
				if dataSinceDel[n] {
					delNotDurable[n] = false
				}
			}
		case 4:
			if !backed {
				continue
			}
			vxDrain(coll)
			for _, n := range names {
				if dataSinceDel[n] {
					delNotDurable[n] = false
				}
			}
			coll.Close()
			store.Close()
			vxQuiesce()
			store, coll, err = OpenStoreCollection(fs.dir, so, po)
			vxAssert("reopen-ok", err == nil)
		}
	}
	snap, serr := coll.Snapshot()
	vxAssert("snapshot-ok", serr == nil)
	vxCheckTree("final", snap, ref, K, kb, names, delNotDurable)
	var J vxKey
	J.n = 1
	J.b[0] = 'j'
	vxCheckTree("final2", snap, ref, J, vxKeyBytes(J), names, delNotDurable)
	snap.Close()
	coll.Close()
	if backed {
		store.Close()
	}
}

func init() { vxRegister("vxH_C11_nested", vxH_C11_nested) }

// vxH_C11_nested: two nesting levels on a store-backed collection. Batches
// write the fixed key at a symbolic level (top / child a / grandchild a/g),
// possibly ONLY the grandchild; then the child is deleted (together with a
// parent write) and optionally created again with a write of its own. After
// every persisted round and after a reopen: each level reads its own
// reference, the grandchild exists exactly while it has been written since
// the last deletion of its parent, and a recreated child has no grandchild.
func vxH_C11_nested() {
	fs := vxNewFS()
	so := vxStoreOptions(fs)
	so.CollectionOptions.CachePersisted = vxChoose(2) == 1
	po := StorePersistOptions{CompactionConcern: CompactionConcern(vxChoose(3))}
	store, coll, err := OpenStoreCollection(fs.dir, so, po)
	vxAssert("open-ok", err == nil)
	var K vxKey
	K.n, K.b[0] = 1, 'k'
	kb := []byte{'k'}
	var lay [3][][]vxEnt // reference layers: top, a, a/g
	hasA, hasG := false, false
	write := func(level int) {
		b, berr := coll.NewBatch(2, 16)
		vxAssert("newbatch-ok", berr == nil)
		ents := vxFixedSet()
		switch level {
		case 0:
			vxFillBatch(b, ents)
		case 1:
			cb, cerr := b.NewChildCollectionBatch("a", BatchOptions{TotalOps: 1, TotalKeyValBytes: 8})
			vxAssert("childbatch-ok", cerr == nil)
			vxFillBatch(cb, ents)
			hasA = true
		case 2:
			cb, cerr := b.NewChildCollectionBatch("a", BatchOptions{TotalOps: 1, TotalKeyValBytes: 8})
			vxAssert("childbatch-ok", cerr == nil)
			gb, gerr := cb.NewChildCollectionBatch("g", BatchOptions{TotalOps: 1, TotalKeyValBytes: 8})
			vxAssert("grandchildbatch-ok", gerr == nil)
			vxFillBatch(gb, ents)
			hasA, hasG = true, true
		}
		lay[level] = append(lay[level], ents)
		vxAssert("executebatch-ok", coll.ExecuteBatch(b, WriteOptions{}) == nil)
		b.Close()
	}
	check := func(tag string, snap Snapshot) {
		got, gerr := snap.Get(kb, ReadOptions{})
		vxAssert(tag+"-get-ok", gerr == nil)
		vxAssert(tag+"-top-content", vxGotIs(got, vxRefGet(K, lay[0]...)))
		as, aerr := snap.ChildCollectionSnapshot("a")
		vxAssert(tag+"-child-snapshot-ok", aerr == nil)
		vxAssert(tag+"-child-exists-iff-written", (as != nil) == hasA)
		if as == nil {
			return
		}
		agot, _ := as.Get(kb, ReadOptions{})
		vxAssert(tag+"-child-content-isolated", vxGotIs(agot, vxRefGet(K, lay[1]...)))
		gs, gserr := as.ChildCollectionSnapshot("g")
		vxAssert(tag+"-grandchild-snapshot-ok", gserr == nil)
		vxAssert(tag+"-grandchild-exists-iff-written", (gs != nil) == hasG)
		if gs != nil {
			ggot, _ := gs.Get(kb, ReadOptions{})
			vxAssert(tag+"-grandchild-content-isolated", vxGotIs(ggot, vxRefGet(K, lay[2]...)))
			gs.Close()
		}
		as.Close()
	}
	checkAll := func(tag string) {
		ss, serr := store.Snapshot()
		vxAssert("store-snapshot-ok", serr == nil)
		check(tag+"-store", ss)
		ss.Close()
		cs, cerr := coll.Snapshot()
		vxAssert("coll-snapshot-ok", cerr == nil)
		check(tag+"-coll", cs)
		cs.Close()
	}
	for r := 0; r < 2; r++ {
		write(vxChoose(3))
		vxDrain(coll)
		checkAll("written")
	}
	if vxChoose(2) == 1 && hasA {
		// delete the child (and with it the grandchild) together with a parent write
		b, berr := coll.NewBatch(2, 16)
		vxAssert("newbatch-ok", berr == nil)
		ents := vxFixedSet()
		vxFillBatch(b, ents)
		lay[0] = append(lay[0], ents)
		vxAssert("delchild-ok", b.DelChildCollection("a") == nil)
		vxAssert("executebatch-ok", coll.ExecuteBatch(b, WriteOptions{}) == nil)
		b.Close()
		hasA, hasG = false, false
		lay[1], lay[2] = nil, nil
		if vxChoose(2) == 1 {
			vxDrain(coll)
		}
		if vxChoose(2) == 1 {
			write(1) // created again: starts empty, without a grandchild
		}
		vxDrain(coll)
		checkAll("after-delete")
	}
	coll.Close()
	store.Close()
	vxQuiesce()
	store, coll, err = OpenStoreCollection(fs.dir, so, po)
	vxAssert("reopen-ok", err == nil)
	checkAll("reopened")
	coll.Close()
	store.Close()
}
