package moss

// C12: history can be walked back and reverted to exactly.

func init() { vxRegister("vxH_C12_previousRevert", vxH_C12_previousRevert) }

func vxH_C12_previousRevert() {
	rounds, kl, vl := 2, 1, 1
	if vxTier() == 1 {
		rounds = 3
	}
	fs := vxNewFS()
	so := vxStoreOptions(fs)
	po := StorePersistOptions{}
	store, coll, err := OpenStoreCollection(fs.dir, so, po)
	vxAssert("open-ok", err == nil)
	var layers [][]vxEnt
	K := vxNewKey(kl)
	kb := vxKeyBytes(K)
	for r := 0; r < rounds; r++ {
		ents := vxNewBatchEnts(1, kl, vl, vxOpsSetDel)
		vxExec(coll, ents)
		layers = append(layers, ents)
		vxDrain(coll)
		// the history chain must survive a clean close + reopen
		if r < rounds-1 && vxChoose(2) == 1 {
			coll.Close()
			store.Close()
			vxQuiesce()
			store, coll, err = OpenStoreCollection(fs.dir, so, po)
			vxAssert("mid-reopen-ok", err == nil)
		}
	}
	// walk back: snapshot i steps back reads the reference of round n-i
	cur, err := store.Snapshot()
	vxAssert("store-snapshot-ok", err == nil)
	var chain []Snapshot
	chain = append(chain, cur)
	for i := 0; i <= rounds; i++ {
		got, gerr := cur.Get(kb, ReadOptions{})
		vxAssert("prev-get-ok", gerr == nil)
		vxAssert("walked-back-content-equals-round", vxGotIs(got, vxRefGet(K, layers[:rounds-i]...)))
		prev, perr := store.SnapshotPrevious(cur)
		vxAssert("previous-ok", perr == nil)
		if prev == nil {
			vxAssert("history-ends-only-at-the-beginning", i >= rounds-1)
			break
		}
		vxAssert("history-not-longer-than-rounds", i < rounds)
		cur = prev
		chain = append(chain, cur)
	}
	// revert to a chosen earlier round
	depth := vxChoose(len(chain))
	target := chain[depth]
	if depth > 0 {
		rerr := store.SnapshotRevert(target)
		vxAssert("revert-ok", rerr == nil)
		after, _ := store.Snapshot()
		got, gerr := after.Get(kb, ReadOptions{})
		vxAssert("reverted-get-ok", gerr == nil)
		vxAssert("store-content-equals-revert-target", vxGotIs(got, vxRefGet(K, layers[:rounds-depth]...)))
		after.Close()
	}
	for _, s := range chain {
		s.Close()
	}
	coll.Close()
	store.Close()
	vxQuiesce()
	// durable: a reopen yields the reverted content, and a further batch
	// builds on it
	store2, coll2, err := OpenStoreCollection(fs.dir, so, po)
	vxAssert("reopen-ok", err == nil)
	base := layers[:rounds-depth]
	got, gerr := coll2.Get(kb, ReadOptions{})
	vxAssert("reopen-get-ok", gerr == nil)
	vxObserveBytes("reopen-get", got)
	vxAssert("reopened-content-equals-revert-target", vxGotIs(got, vxRefGet(K, base...)))
	ents := vxNewBatchEnts(1, kl, vl, vxOpsSetDel)
	vxExec(coll2, ents)
	vxDrain(coll2)
	var cont [][]vxEnt
	cont = append(cont, base...)
	cont = append(cont, ents)
	ss, _ := store2.Snapshot()
	got, gerr = ss.Get(kb, ReadOptions{})
	vxAssert("continued-get-ok", gerr == nil)
	vxAssert("continuation-builds-on-reverted-content", vxGotIs(got, vxRefGet(K, cont...)))
	ss.Close()
	coll2.Close()
	store2.Close()
}
