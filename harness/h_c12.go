package moss

// C12: history can be walked back and reverted to exactly.

func init() { vxRegister("vxH_C12_previousRevert", vxH_C12_previousRevert) }

func vxH_C12_previousRevert() {
	rounds, kl, vl := 2, 1, 1
	if vxTier() == 1 {
		rounds = 3
	}
	fs := vxNewFS()
	so := vxStoreOptions(fs)
	po := StorePersistOptions{}
	store, coll, err := OpenStoreCollection(fs.dir, so, po)
	vxAssert("open-ok", err == nil)
	var layers [][]vxEnt
	K := vxNewKey(kl)
	kb := vxKeyBytes(K)
	for r := 0; r < rounds; r++ {
		ents := vxNewBatchEnts(1, kl, vl, vxOpsSetDel)
		vxExec(coll, ents)
		layers = append(layers, ents)
		vxDrain(coll)
		// the history chain must survive a clean close + reopen
		if r < rounds-1 && vxChoose(2) == 1 {
			coll.Close()
			store.Close()
			vxQuiesce()
			store, coll, err = OpenStoreCollection(fs.dir, so, po)
			vxAssert("mid-reopen-ok", err == nil)
		}
	}
	// walk back: snapshot i steps back reads the reference of round n-i
	cur, err := store.Snapshot()
	vxAssert("store-snapshot-ok", err == nil)
	var chain []Snapshot
	chain = append(chain, cur)
	for i := 0; i <= rounds; i++ {
		got, gerr := cur.Get(kb, ReadOptions{})
		vxAssert("prev-get-ok", gerr == nil)
		vxAssert("walked-back-content-equals-round", vxGotIs(got, vxRefGet(K, layers[:rounds-i]...)))
		prev, perr := store.SnapshotPrevious(cur)
		vxAssert("previous-ok", perr == nil)
		if prev == nil {
			vxAssert("history-ends-only-at-the-beginning", i >= rounds-1)
			break
		}
		vxAssert("history-not-longer-than-rounds", i < rounds)
		cur = prev
		chain = append(chain, cur)
	}
	// revert to a chosen earlier round
	depth := vxChoose(len(chain))
	target := chain[depth]
	if depth > 0 {
		rerr := store.SnapshotRevert(target)
		vxAssert("revert-ok", rerr == nil)
		after, _ := store.Snapshot()
		got, gerr := after.Get(kb, ReadOptions{})
		vxAssert("reverted-get-ok", gerr == nil)
		vxAssert("store-content-equals-revert-target", vxGotIs(got, vxRefGet(K, layers[:rounds-depth]...)))
		after.Close()
	}
	for _, s := range chain {
		s.Close()
	}
	coll.Close()
	store.Close()
	vxQuiesce()
	// durable: a reopen yields the reverted content, and a further batch
	// builds on it
	store2, coll2, err := OpenStoreCollection(fs.dir, so, po)
	vxAssert("reopen-ok", err == nil)
	base := layers[:rounds-depth]
	got, gerr := coll2.Get(kb, ReadOptions{})
	vxAssert("reopen-get-ok", gerr == nil)
	vxObserveBytes("reopen-get", got)
	vxAssert("reopened-content-equals-revert-target", vxGotIs(got, vxRefGet(K, base...)))
	ents := vxNewBatchEnts(1, kl, vl, vxOpsSetDel)
	vxExec(coll2, ents)
	vxDrain(coll2)
	var cont [][]vxEnt
	cont = append(cont, base...)
	cont = append(cont, ents)
	ss, _ := store2.Snapshot()
	got, gerr = ss.Get(kb, ReadOptions{})
	vxAssert("continued-get-ok", gerr == nil)
	vxAssert("continuation-builds-on-reverted-content", vxGotIs(got, vxRefGet(K, cont...)))
	ss.Close()
	coll2.Close()
	store2.Close()
}

func init() { vxRegister("vxH_C12_continue", vxH_C12_continue) }

func vxCopyNode(n *vxNode) *vxNode {
	c := vxNewNode()
	c.layers = append(c.layers, n.layers...)
	for name, k := range n.kids {
		c.kids[name] = vxCopyNode(k)
	}
	return c
}

// vxH_C12_continue: history with child collections and with a continuation
// after the revert. Rounds write the fixed key at top level, in a child
// collection, or both; every persistence round and every revert appends one
// entry to the list of contents the store has exposed. A symbolic number of
// steps back is walked (each content checked), the store is reverted to
// that snapshot, optionally reverted once more to its own current snapshot,
// then either reopened or continued in place (Store.OpenCollection), one
// more round is executed, and the whole history is walked from the current
// snapshot: newest first exactly the exposed contents, then nil; the same
// after a final close and reopen.
func vxH_C12_continue() {
	rounds := 2
	if vxTier() == 1 {
		rounds = 3
	}
	fs := vxNewFS()
	so := vxStoreOptions(fs)
	po := StorePersistOptions{}
	store, coll, err := OpenStoreCollection(fs.dir, so, po)
	vxAssert("open-ok", err == nil)
	ref := vxNewNode()
	names := []string{"a"}
	none := map[string]bool{}
	var K vxKey
	K.n = 1
	K.b[0] = 'k'
	kb := vxKeyBytes(K)
	var exposed []*vxNode
	round := func(c Collection) {
		shape := vxChoose(4) // 0 top, 1 child, 2 both, 3 only the grandchild a/g
		b, berr := c.NewBatch(4, 64)
		vxAssert("newbatch-ok", berr == nil)
		if shape == 3 {
			cb, cerr := b.NewChildCollectionBatch("a", BatchOptions{TotalOps: 2, TotalKeyValBytes: 16})
			vxAssert("childbatch-ok", cerr == nil)
			gb, gerr := cb.NewChildCollectionBatch("g", BatchOptions{TotalOps: 2, TotalKeyValBytes: 16})
			vxAssert("grandchildbatch-ok", gerr == nil)
			ents := vxFixedSet()
			vxFillBatch(gb, ents)
			if ref.kids["a"] == nil {
				ref.kids["a"] = vxNewNode()
			}
			if ref.kids["a"].kids["g"] == nil {
				ref.kids["a"].kids["g"] = vxNewNode()
			}
			g := ref.kids["a"].kids["g"]
			g.layers = append(g.layers, ents)
			vxAssert("executebatch-ok", c.ExecuteBatch(b, WriteOptions{}) == nil)
			b.Close()
			vxDrain(c)
			exposed = append(exposed, vxCopyNode(ref))
			return
		}
		if shape != 1 {
			ents := vxFixedSet()
			vxFillBatch(b, ents)
			ref.layers = append(ref.layers, ents)
		}
		if shape != 0 {
			cb, cerr := b.NewChildCollectionBatch("a", BatchOptions{TotalOps: 2, TotalKeyValBytes: 16})
			vxAssert("childbatch-ok", cerr == nil)
			ents := vxFixedSet()
			vxFillBatch(cb, ents)
			if ref.kids["a"] == nil {
				ref.kids["a"] = vxNewNode()
			}
			ref.kids["a"].layers = append(ref.kids["a"].layers, ents)
		}
		vxAssert("executebatch-ok", c.ExecuteBatch(b, WriteOptions{}) == nil)
		b.Close()
		vxDrain(c)
		exposed = append(exposed, vxCopyNode(ref))
	}
	// walk: from the store's current snapshot, `steps` steps back (all the
	// way when steps < 0); returns the snapshot reached (caller closes).
	walk := func(tag string, steps int) Snapshot {
		cur, cerr := store.Snapshot()
		vxAssert(tag+"-store-snapshot-ok", cerr == nil)
		for i := 0; ; i++ {
			vxAssert(tag+"-history-not-longer-than-exposed", i < len(exposed))
			if i >= len(exposed) {
				break
			}
			vxCheckTree(tag+"-walked-back", cur, exposed[len(exposed)-1-i], K, kb, names, none)
			vxCheckGrand(tag+"-walked-back", cur, exposed[len(exposed)-1-i], K, kb)
			if i == steps {
				return cur
			}
			prev, perr := store.SnapshotPrevious(cur)
			vxAssert(tag+"-previous-ok", perr == nil)
			cur.Close()
			if prev == nil {
				vxAssert(tag+"-history-ends-only-at-the-beginning", i == len(exposed)-1)
				return nil
			}
			cur = prev
		}
		cur.Close()
		return nil
	}
	for r := 0; r < rounds; r++ {
		round(coll)
	}
	coll.Close()
	depth := vxChoose(len(exposed))
	target := walk("first", depth)
	vxAssert("target-reached", target != nil)
	if target == nil {
		return
	}
	if depth > 0 {
		vxAssert("revert-ok", store.SnapshotRevert(target) == nil)
		ref = vxCopyNode(exposed[len(exposed)-1-depth])
		exposed = append(exposed, vxCopyNode(ref))
	}
	target.Close()
	if vxChoose(2) == 1 {
		// the store's own current snapshot is a legal revert target
		cur, _ := store.Snapshot()
		vxAssert("revert-to-current-ok", store.SnapshotRevert(cur) == nil)
		cur.Close()
		exposed = append(exposed, vxCopyNode(ref))
	}
	if vxChoose(2) == 1 {
		store.Close()
		vxQuiesce()
		store, coll, err = OpenStoreCollection(fs.dir, so, po)
		vxAssert("reopen-ok", err == nil)
	} else {
		coll, err = store.OpenCollection(so, po)
		vxAssert("opencollection-ok", err == nil)
	}
	cs, cserr := coll.Snapshot()
	vxAssert("coll-snapshot-ok", cserr == nil)
	vxCheckTree("continued-coll", cs, ref, K, kb, names, none)
	vxCheckGrand("continued-coll", cs, ref, K, kb)
	cs.Close()
	round(coll)
	if s := walk("continued", -1); s != nil {
		s.Close()
	}
	coll.Close()
	store.Close()
	vxQuiesce()
	store, coll, err = OpenStoreCollection(fs.dir, so, po)
	vxAssert("final-reopen-ok", err == nil)
	if s := walk("reopened", -1); s != nil {
		s.Close()
	}
	coll.Close()
	store.Close()
}

// vxCheckGrand: the grandchild a/g of snap exists and reads like the
// reference exactly when the reference tree has it.
func vxCheckGrand(tag string, snap Snapshot, ref *vxNode, K vxKey, kb []byte) {
	var want *vxNode
	if a := ref.kids["a"]; a != nil {
		want = a.kids["g"]
	}
	var got []byte
	has := false
	if as, _ := snap.ChildCollectionSnapshot("a"); as != nil {
		if gs, _ := as.ChildCollectionSnapshot("g"); gs != nil {
			has = true
			got, _ = gs.Get(kb, ReadOptions{})
			gs.Close()
		}
		as.Close()
	}
	vxAssert(tag+"-grandchild-exists-iff-written", has == (want != nil))
	if want != nil && has {
		vxAssert(tag+"-grandchild-content", vxGotIs(got, vxRefGet(K, want.layers...)))
	}
}
