package moss

// C13: write-back to an application lower level loses and reorders nothing.

func init() { vxRegister("vxH_C13_writeBack", vxH_C13_writeBack) }

func vxH_C13_writeBack() {
	steps, kl, vl, nfail := 4, 1, 1, 1
	if vxTier() == 1 {
		steps, nfail = 5, 2
	}
	co := CollectionOptions{CachePersisted: vxChoose(2) == 1}
	ll := vxNewLL(nil)
	for i := 0; i < nfail; i++ {
		ll.fail = append(ll.fail, vxChoose(2) == 1)
	}
	// optionally one LowerLevelUpdate call stalls (a slow lower level) and is
	// released by the harness at a later step
	if vxChoose(2) == 1 {
		ll.stallAt = vxChoose(2)
	}
	released := false
	nerr := 0
	co.LowerLevelInit = ll.snapshot()
	co.LowerLevelUpdate = ll.update
	co.OnError = func(error) { nerr++ }
	ci, err := NewCollection(co)
	vxAssert("new-ok", err == nil)
	c := ci.(*collection)
	ll.opts = c.options
	ll.ss.options = c.options
	c.Start()
	var layers [][]vxEnt
	nbatches := 0
	// one symbolic probe key for the whole history: every assertion is
	// decided for all of its values
	// fixed key, symbolic operation kinds and values: the property is about
	// hand-over order, not key comparison (C01/C10 cover that)
	var K vxKey
	K.n, K.b[0] = 1, 'k'
	kb := vxKeyBytes(K)
	_, _ = kl, vl
	for s := 0; s < steps; s++ {
		kind := vxChoose(5)
		if kind == 0 {
			if nbatches > 0 {
				break
			}
			kind = 1
		}
		switch kind {
		case 4:
			if ll.stallAt >= 0 && !released {
				close(ll.release)
				released = true
				vxQuiesce()
			}
		case 1:
			ents := vxFixedSegW(vxOpsSetDel, 0)
			vxExec(c, ents)
			layers = append(layers, ents)
			nbatches++
		case 2:
			c.NotifyMerger("go", true)
		case 3:
			vxQuiesce()
		}
		// at every moment: lower level overlaid with the dirty sections
		// (that is what a collection snapshot is) equals the reference
		snap, err := c.Snapshot()
		vxAssert("snapshot-ok", err == nil)
		got, err := snap.Get(kb, ReadOptions{})
		vxAssert("overlay-get-ok", err == nil)
		vxAssert("overlay-matches-reference", vxGotIs(got, vxRefGet(K, layers...)))
		snap.Close()
	}
	// drain: let merger and persister run until nothing moves
	if ll.stallAt >= 0 && !released {
		close(ll.release)
		released = true
	}
	vxQuiesce()
	c.NotifyMerger("go", true)
	vxQuiesce()
	ref := vxRefGet(K, layers...)
	lgot, err := ll.ss.Get(kb, ReadOptions{})
	vxAssert("ll-get-ok", err == nil)
	vxObserveBytes("ll-get", lgot)
	vxAssert("drained-lower-level-equals-reference", vxGotIs(lgot, ref))
	vxAssert("failed-update-reoffers-same-snapshot", ll.reoffer)
	failed := 0
	for i := 0; i < ll.calls && i < len(ll.fail); i++ {
		if ll.fail[i] {
			failed++
		}
	}
	vxAssert("every-failure-reported", nerr == failed)
	st, _ := c.Stats()
	vxAssert("drained-gauges-zero", st.CurDirtyOps == 0 && st.CurDirtySegments == 0 && st.CurDirtyBytes == 0)
	c.Close()
}
