package moss

// C14: lookups do not depend on the segment key index.

func init() { vxRegister("vxH_C14_indexDiff", vxH_C14_indexDiff) }

// vxH_C14_indexDiff: for a symbolic sorted segment, every index quota /
// threshold and every probe key, findKeyPos and findStartKeyInclusivePos on
// the indexed segment equal those on an unindexed twin (and the reference
// positions), and the index window [l,r) brackets the key's position.
func vxH_C14_indexDiff() {
	maxN := 3
	quotas := []int{0, 5, 9, 13, 18, 64}
	if vxTier() == 1 {
		maxN = 4
		quotas = []int{0, 4, 5, 8, 10, 12, 13, 17, 18, 24, 30, 64}
	}
	n := 1 + vxChoose(maxN)
	ents := vxNewEnts(n, vxKL, 0, vxOpsSetDel) // tombstones are indexed like any other entry
	seg := vxSegOf(ents)
	twin := vxSegOf(ents)
	quota := quotas[vxChoose(len(quotas))]
	minKB := 0
	if vxChoose(2) == 1 {
		minKB = 1 << 30
	}
	seg.buildIndex(quota, minKB)
	if minKB > 0 {
		vxAssert("no-index-below-threshold", seg.index == nil)
	}

	K := vxNewKey(vxKL)
	kb := vxKeyBytes(K)

	// reference positions
	cntLess := 0
	eqPos := -1
	for i, e := range ents {
		cntLess += vxIteInt(vxKeyLess(e.k, K), 1, 0)
		eqPos = vxIteInt(vxKeyEq(e.k, K), i, eqPos)
	}

	p1, e1 := seg.findKeyPos(kb)
	p2, e2 := twin.findKeyPos(kb)
	vxAssert("findKeyPos-no-error", e1 == nil && e2 == nil)
	vxObserveInt("findKeyPos", p1)
	vxAssert("findKeyPos-index-independent", p1 == p2)
	vxAssert("findKeyPos-reference", p2 == eqPos)

	s1 := seg.findStartKeyInclusivePos(kb)
	s2 := twin.findStartKeyInclusivePos(kb)
	vxObserveInt("findStart", s1)
	vxAssert("findStart-index-independent", s1 == s2)
	vxAssert("findStart-reference", s2 == cntLess)

	if seg.index != nil {
		vxReach("indexed")
		l, r := seg.index.lookup(kb)
		vxAssert("window-ordered", vxAnd(0 <= l, vxAnd(l <= r, r <= n)))
		vxAssert("window-brackets-start", vxAnd(l <= cntLess, vxOr(cntLess <= r, eqPos < 0)))
		vxAssert("window-contains-hit", vxImplies(eqPos >= 0, vxAnd(l <= eqPos, eqPos < r)))
	}

	// range start / end through the cursor
	E := vxNewKey(vxKL)
	eb := vxKeyBytes(E)
	c1, _ := seg.Cursor(kb, eb)
	c2, _ := twin.Cursor(kb, eb)
	sc1, sc2 := c1.(*segmentCursor), c2.(*segmentCursor)
	vxAssert("cursor-index-independent", sc1.start == sc2.start && sc1.end == sc2.end)
}

func init() { vxRegister("vxH_C14_skewed", vxH_C14_skewed) }

// vxH_C14_skewed: key sets whose long keys come first, so that the index
// runs out of byte space and covers only a prefix of the segment (more keys
// than the fully symbolic harness can afford; the keys are concrete, quota,
// threshold and probe are symbolic).
func vxH_C14_skewed() {
	sets := [][]string{
		{"aa", "ab", "ac", "ad", "b"},
		{"aa", "ab", "ac", "ad", "b", "c"},
		{"", "aa", "ab", "ac", "b", "c", "d"},
		{"aa", "ab", "b", "c", "d", "e", "f", "g"},
	}
	keys := sets[vxChoose(len(sets))]
	var ents []vxEnt
	for _, ks := range keys {
		var e vxEnt
		e.op = vxNewOp(vxOpsSetDel)
		e.k.n = len(ks)
		for j := 0; j < len(ks); j++ {
			e.k.b[j] = ks[j]
		}
		ents = append(ents, e)
	}
	seg := vxSegOf(ents)
	twin := vxSegOf(ents)
	quota := 4 + vxChoose(40)
	seg.buildIndex(quota, 0)
	K := vxNewKey(vxKL)
	kb := vxKeyBytes(K)
	p1, e1 := seg.findKeyPos(kb)
	p2, e2 := twin.findKeyPos(kb)
	vxAssert("findKeyPos-no-error", e1 == nil && e2 == nil)
	vxObserveInt("findKeyPos", p1)
	vxAssert("findKeyPos-index-independent", p1 == p2)
	s1 := seg.findStartKeyInclusivePos(kb)
	s2 := twin.findStartKeyInclusivePos(kb)
	vxAssert("findStart-index-independent", s1 == s2)
	if seg.index != nil && seg.index.numKeys >= 2 {
		vxReach("indexed")
	}
}
