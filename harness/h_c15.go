package moss

// C15: handles keep their data alive; closing everything releases everything.
// C02: a snapshot is frozen for its whole life.

func init() {
	vxRegister("vxH_C15_handles", vxH_C15_handles)
	vxRegister("vxH_C15_reopened", vxH_C15_reopened)
}

func vxH_C15_handles() { vxHandlesScenario(false) }

// vxH_C15_reopened: the same scenario on a store that already holds one
// persisted round from an earlier session; handles are also opened right
// after the reopen, before the first persistence round of this session, so
// they rest on the footer the store was opened with.
func vxH_C15_reopened() { vxHandlesScenario(true) }

type vxHandleRec struct {
	kind   int // 0 collection snapshot, 1 store snapshot, 2 iterator on a collection snapshot, 3 iterator on a store snapshot
	snap   Snapshot
	it     Iterator
	nlay   int // number of reference layers visible when it was opened
	closed bool
}

// vxH_C15_handles: a store-backed collection goes through two persistence
// rounds (symbolic compaction concern, so the second round may replace the
// data file); snapshots / store snapshots / iterators are opened at
// symbolic points; then handles, collection and store are closed in a
// symbolic order. While a handle is open every read through it returns
// exactly the content at the time it was taken (no fault on unmapped
// memory); once everything is closed no file is open, nothing is mapped,
// and the directory holds one data file.
func vxHandlesScenario(prior bool) {
	kl, vl := 1, 1
	maxHandles := 2
	fs := vxNewFS()
	so := vxStoreOptions(fs)
	so.CompactionLevelMaxSegments = 1
	so.CompactionPercentage = -1
	so.CollectionOptions.CachePersisted = vxChoose(2) == 1
	rounds := 2
	if so.CollectionOptions.CachePersisted {
		rounds = 3 // the cached clean stack of round N pins the footer of round N-2
	}
	po := StorePersistOptions{CompactionConcern: CompactionConcern(vxChoose(3))}
	var layers [][]vxEnt
	if prior {
		store0, coll0, err0 := OpenStoreCollection(fs.dir, so, po)
		vxAssert("prior-open-ok", err0 == nil)
		var e vxEnt
		e.k.n = 1
		e.k.b[0] = 'k'
		e.op = OperationSet
		e.v.b[0] = vxU8()
		e.v.n = 1
		vxExec(coll0, []vxEnt{e})
		layers = append(layers, []vxEnt{e})
		vxDrain(coll0)
		coll0.Close()
		store0.Close()
		vxQuiesce()
		rounds--
	}
	store, coll, err := OpenStoreCollection(fs.dir, so, po)
	vxAssert("open-ok", err == nil)
	// a fixed key with symbolic values: the property is about lifetimes,
	// not about key comparisons
	var K vxKey
	K.n = 1
	K.b[0] = 'k'
	kb := vxKeyBytes(K)
	_, _ = kl, vl
	var hs []*vxHandleRec
	openHandle := func() {
		if len(hs) >= maxHandles || vxChoose(2) == 0 {
			return
		}
		h := &vxHandleRec{kind: vxChoose(4), nlay: len(layers)}
		switch h.kind {
		case 0:
			h.snap, err = coll.Snapshot()
		case 1:
			h.snap, err = store.Snapshot()
			// the store only knows what has been persisted; all rounds so
			// far were drained, so that is everything
		case 2, 3:
			if h.kind == 2 {
				h.snap, err = coll.Snapshot()
			} else {
				h.snap, err = store.Snapshot()
			}
			if err == nil {
				h.it, err = h.snap.StartIterator(nil, nil, IteratorOptions{})
			}
			if err == nil && h.it != nil {
				// a backward seek restarts the iterator internally; it
				// must stay positioned on "k" and keep its references
				h.it.SeekTo([]byte{})
				h.it.SeekTo(kb)
				if vxChoose(2) == 1 {
					// the iterator is closed right away while its snapshot
					// stays open: the snapshot must keep its own references
					h.it.Close()
					h.it = nil
					h.kind -= 2 // from now on a plain (store) snapshot handle
				}
			}
		}
		vxAssert("handle-open-ok", err == nil)
		hs = append(hs, h)
	}
	readAll := func(tag string) {
		for _, h := range hs {
			if h.closed {
				continue
			}
			ref := vxRefGet(K, layers[:h.nlay]...)
			if h.kind >= 2 {
				if h.it == nil {
					vxAssert(tag+"-iterator-frozen", vxNot(ref.live))
					continue
				}
				ik, iv, ierr := h.it.Current()
				if ierr == ErrIteratorDone {
					vxAssert(tag+"-iterator-frozen", vxNot(ref.live))
				} else {
					atK := vxKeyEq(vxKeyOf(ik), K)
					vxAssert(tag+"-iterator-frozen", vxAnd(vxImplies(atK, vxAnd(ref.live, vxValIs(iv, ref.v))), vxImplies(ref.live, atK)))
				}
				continue
			}
			got, gerr := h.snap.Get(kb, ReadOptions{})
			vxAssert(tag+"-handle-get-ok", gerr == nil)
			vxAssert(tag+"-snapshot-frozen", vxGotIs(got, ref))
		}
	}
	if prior {
		openHandle()
		readAll("after-reopen")
		if vxChoose(2) == 1 {
			// a merger cycle with nothing to merge (what the idle merger
			// does): the handles rest on the lower level only
			coll.(*collection).NotifyMerger("idle", true)
			vxQuiesce()
			readAll("after-idle-cycle")
		}
	}
	for r := 0; r < rounds; r++ {
		var e vxEnt
		e.k = K
		e.op = vxNewOp(vxOpsSetDel) // symbolic: the solver decides Set vs Del
		e.v.b[0] = vxU8()
		e.v.n = vxIteInt(e.op == OperationSet, 1, 0)
		ents := []vxEnt{e}
		vxExec(coll, ents)
		layers = append(layers, ents)
		vxDrain(coll)
		if !so.CollectionOptions.CachePersisted || (r == rounds-1 && len(hs) == 0) {
			openHandle()
		}
		readAll("after-round")
	}
	// close handles, collection and store in a symbolic order
	n := len(hs) + 2
	done := make([]bool, n)
	for left := n; left > 0; left-- {
		pick := vxChoose(left)
		idx := -1
		for i := 0; i < n; i++ {
			if !done[i] {
				if pick == 0 {
					idx = i
					break
				}
				pick--
			}
		}
		done[idx] = true
		switch {
		case idx < len(hs):
			h := hs[idx]
			if h.it != nil {
				h.it.Close()
			}
			h.snap.Close()
			h.closed = true
		case idx == len(hs):
			coll.Close()
		default:
			store.Close()
		}
		vxQuiesce()
		readAll("after-close")
	}
	vxQuiesce()
	vxObserveInt("open-files", fs.openFiles())
	vxObserveInt("mappings", fs.liveRegions())
	vxObserveInt("files", len(fs.names()))
	vxAssert("no-open-files-left", fs.openFiles() == 0)
	vxAssert("no-mappings-left", fs.liveRegions() == 0)
	vxAssert("only-current-data-file-left", len(fs.names()) == 1)
}

func init() { vxRegister("vxH_C15_abort", vxH_C15_abort) }

// vxH_C15_abort: a store is aborted (CloseEx{Abort: true} on one of two
// references) and then asked for one more round, symbolically an append, a
// leveled or a full compaction, with or without new data. The round either
// succeeds or reports ErrAborted; once everything is closed nothing is
// open or mapped and only one data file is left - a compaction file that
// was given up is removed again.
func vxH_C15_abort() {
	fs := vxNewFS()
	so := vxStoreOptions(fs)
	store, err := OpenStore(fs.dir, so)
	vxAssert("open-ok", err == nil)
	opts := &so.CollectionOptions
	mk := func(k byte) []vxEnt {
		var e vxEnt
		e.k.n, e.k.b[0] = 1, k
		e.op, e.v.n, e.v.b[0] = OperationSet, 1, vxU8()
		return []vxEnt{e}
	}
	for _, k := range []byte{'a', 'b'} {
		s, perr := store.Persist(vxHigher(opts, mk(k)), StorePersistOptions{})
		vxAssert("round-ok", perr == nil)
		s.Close()
	}
	store.AddRef()
	vxAssert("abort-ok", store.CloseEx(StoreCloseExOptions{Abort: true}) == nil)
	var higher Snapshot
	if vxChoose(2) == 1 {
		higher = vxHigher(opts, mk('c'))
	}
	po := StorePersistOptions{CompactionConcern: CompactionConcern(vxChoose(3))}
	s, perr := store.Persist(higher, po)
	vxAssert("aborted-round-succeeds-or-reports-abort", perr == nil || perr == ErrAborted)
	if perr == nil && s != nil {
		s.Close()
	}
	store.Close()
	vxQuiesce()
	vxObserveInt("files-left", len(fs.names()))
	vxAssert("no-open-files-left", fs.openFiles() == 0)
	vxAssert("no-mappings-left", fs.liveRegions() == 0)
	vxAssert("only-current-data-file-left", len(fs.names()) == 1)
}
