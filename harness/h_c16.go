package moss

import "sync"

// C16: calls return, back-pressure is bounded, Close is final.

func init() { vxRegister("vxH_C16_close", vxH_C16_close) }

// vxH_C16_close: two writers (one batch each) against MaxPreMergerBatches=1,
// a lower level that succeeds / fails once, one synchronous merger
// notification and a Close, explored over schedules (pre-emption at every
// synchronisation operation, bounded). No schedule may leave an API call
// blocked (deadlock), the number of accepted-but-unmerged batches never
// exceeds the limit, and after Close every entry point reports ErrClosed.
func vxH_C16_close() {
	co := CollectionOptions{MaxPreMergerBatches: 1}
	var ll *vxLL
	llMode := vxChoose(3) // 0: no lower level, 1: succeeds, 2: first update fails
	if llMode > 0 {
		ll = vxNewLL(nil)
		if llMode == 2 {
			ll.fail = []bool{true}
		}
		co.LowerLevelInit = ll.snapshot()
		co.LowerLevelUpdate = ll.update
	}
	ci, err := NewCollection(co)
	vxAssert("new-ok", err == nil)
	c := ci.(*collection)
	if ll != nil {
		ll.opts = c.options
		ll.ss.options = c.options
	}
	maxTop := 0
	co2 := c.options
	co2.OnEvent = func(ev Event) {
		if ev.Kind == EventKindBatchExecute || ev.Kind == EventKindMergerProgress {
			c.m.Lock()
			if h := vxDeepHeight(c.stackDirtyTop); h > maxTop {
				maxTop = h
			}
			c.m.Unlock()
		}
	}
	// optionally the top section is already full when the writers arrive, so
	// that both of them block on back-pressure at the same time
	lateStart := false
	if vxChoose(2) == 1 {
		pre := &segment{}
		pre.mutate(OperationSet, []byte{'p'}, []byte{'v'})
		c.stackDirtyTop = &segmentStack{options: c.options, refs: 1, a: []Segment{pre}, numBatches: 1}
		// optionally the background goroutines start only after both
		// writers are blocked (ExecuteBatch before Start is legal)
		lateStart = vxChoose(2) == 1
	}
	if !lateStart {
		c.Start()
	}
	var wg sync.WaitGroup
	errs := make([]error, 2)
	childOnly := vxChoose(2) == 1
	for w := 0; w < 2; w++ {
		wg.Add(1)
		w := w
		go func() {
			defer wg.Done()
			b, berr := c.NewBatch(1, 8)
			if berr != nil {
				errs[w] = berr
				return
			}
			if childOnly {
				// a batch that only touches a child collection
				cb, _ := b.NewChildCollectionBatch("c", BatchOptions{TotalOps: 1, TotalKeyValBytes: 8})
				cb.Set([]byte{'w', byte('0' + w)}, []byte{'v'})
			} else {
				b.Set([]byte{'w', byte('0' + w)}, []byte{'v'})
			}
			errs[w] = c.ExecuteBatch(b, WriteOptions{})
		}()
	}
	if lateStart {
		vxQuiesce()
		c.Start()
		vxQuiesce()
	}
	withNotify := vxChoose(2) == 1
	if withNotify {
		wg.Add(1)
		go func() {
			defer wg.Done()
			c.NotifyMerger("go", true)
		}()
	}
	if vxChoose(2) == 1 {
		// a read right before Close leaves a cached snapshot behind
		if sn, serr := c.Snapshot(); serr == nil {
			sn.Close()
		}
	}
	cerr := c.Close()
	vxAssert("close-ok", cerr == nil)
	// known finding: a synchronous NotifyMerger whose ping is enqueued after
	// the merger's last replyToPings is never answered
	wg.Wait()
	for w := 0; w < 2; w++ {
		vxAssert("writer-returned-nil-or-closed", errs[w] == nil || errs[w] == ErrClosed)
	}
	vxAssert("unmerged-batches-bounded", maxTop <= 1)
	_, nberr := c.NewBatch(1, 8)
	vxAssert("newbatch-after-close", nberr == ErrClosed)
	_, serr := c.Snapshot()
	vxAssert("snapshot-after-close", serr == ErrClosed)
	_, gerr := c.Get([]byte{'x'}, ReadOptions{})
	vxAssert("get-after-close", gerr == ErrClosed)
	b := &batch{segment: &segment{rootCollection: c}}
	b.Set([]byte{'z'}, []byte{'z'})
	vxAssert("executebatch-after-close", c.ExecuteBatch(b, WriteOptions{}) == ErrClosed)
}

func init() { vxRegister("vxH_C16_dirtyLimit", vxH_C16_dirtyLimit) }

// vxH_C16_dirtyLimit: MaxDirtyOps makes the merger wait for the persister
// after handing a stack down. The lower level succeeds, fails its first
// update, or is stalled inside its first update until Close has begun and
// then fails or succeeds. One or two writers; Close arrives at a symbolic
// point. Explored over schedules: Close returns, writers return nil or
// ErrClosed, and afterwards every entry point reports ErrClosed.
func vxH_C16_dirtyLimit() {
	co := CollectionOptions{MaxDirtyOps: 1}
	ll := vxNewLL(nil)
	// (ordered so that the depth-first search meets the natively
	// reproducible schedules first)
	mode := 3 - vxChoose(4) // 0 succeeds, 1 first update fails, 2 stalled then fails, 3 stalled then succeeds
	closing := make(chan struct{})
	switch mode {
	case 1:
		ll.fail = []bool{true}
	case 2:
		ll.fail = []bool{true}
		ll.stallAt = 0
	case 3:
		ll.stallAt = 0
	}
	co.LowerLevelInit = ll.snapshot()
	co.LowerLevelUpdate = ll.update
	co.OnEvent = func(ev Event) {
		if ev.Kind == EventKindCloseStart {
			close(closing)
		}
	}
	ci, err := NewCollection(co)
	vxAssert("new-ok", err == nil)
	c := ci.(*collection)
	ll.opts = c.options
	ll.ss.options = c.options
	c.Start()
	var wg sync.WaitGroup
	nw := 1 + vxChoose(2)
	errs := make([]error, nw)
	for w := 0; w < nw; w++ {
		wg.Add(1)
		w := w
		go func() {
			defer wg.Done()
			b, berr := c.NewBatch(1, 8)
			if berr != nil {
				errs[w] = berr
				return
			}
			b.Set([]byte{'w', byte('0' + w)}, []byte{'v'})
			errs[w] = c.ExecuteBatch(b, WriteOptions{})
		}()
	}
	if mode >= 2 {
		wg.Add(1)
		go func() {
			defer wg.Done()
			<-closing
			vxYield()
			if !vxSymbolic() {
				// natively "Close has begun" is only the first event of
				// Close: wait until the collection is marked closed, the
				// order the executor reaches by scheduling
				for n := 0; n < 2000 && !c.isClosed(); n++ {
					vxYield()
				}
			}
			close(ll.release)
		}()
	}
	if vxChoose(2) == 0 {
		vxQuiesce() // merger and persister get as far as they can first
	}
	cerr := c.Close()
	vxAssert("close-ok", cerr == nil)
	wg.Wait()
	for w := 0; w < nw; w++ {
		vxAssert("writer-returned-nil-or-closed", errs[w] == nil || errs[w] == ErrClosed)
	}
	_, nberr := c.NewBatch(1, 8)
	vxAssert("newbatch-after-close", nberr == ErrClosed)
	_, serr := c.Snapshot()
	vxAssert("snapshot-after-close", serr == ErrClosed)
	_, gerr := c.Get([]byte{'x'}, ReadOptions{})
	vxAssert("get-after-close", gerr == ErrClosed)
}

func init() { vxRegister("vxH_C16_pingFlood", vxH_C16_pingFlood) }

// vxH_C16_pingFlood: asynchronous merger notifications (from the
// application, the idle waker or the persister itself) queue up in a
// bounded channel while the merger is busy with a cycle; meanwhile a
// write-back completes and the persister wants to wake the merger to hand
// down what sits in the mid section. Whatever the number of queued
// notifications (symbolic, up to beyond the channel's capacity), every API
// call still returns and Close works.
func vxH_C16_pingFlood() {
	co := CollectionOptions{}
	ll := vxNewLL(nil)
	ll.stallAt = 0
	gate := make(chan struct{})
	armed := false
	co.LowerLevelInit = ll.snapshot()
	co.LowerLevelUpdate = ll.update
	co.OnEvent = func(ev Event) {
		if ev.Kind == EventKindMergerProgress && armed {
			armed = false
			<-gate // the merger is busy (it holds no lock here)
		}
	}
	ci, err := NewCollection(co)
	vxAssert("new-ok", err == nil)
	c := ci.(*collection)
	ll.opts = c.options
	ll.ss.options = c.options
	c.Start()
	put := func(k byte) {
		b, berr := c.NewBatch(1, 8)
		vxAssert("newbatch-ok", berr == nil)
		b.Set([]byte{k}, []byte{'v'})
		vxAssert("executebatch-ok", c.ExecuteBatch(b, WriteOptions{}) == nil)
		b.Close()
	}
	put('a')
	c.NotifyMerger("go", true) // base handed down; the persister stalls inside LowerLevelUpdate
	vxQuiesce()
	put('b')
	c.NotifyMerger("go", true) // merged into mid, the base is busy
	vxQuiesce()
	armed = true
	c.NotifyMerger("wake", false) // the merger starts a cycle and stays busy in it
	vxQuiesce()
	n := vxChoose(12) // further notifications arriving meanwhile: 0..11 (the channel holds 10)
	var wg sync.WaitGroup
	for i := 0; i < n; i++ {
		wg.Add(1)
		go func() {
			defer wg.Done()
			c.NotifyMerger("more", false)
		}()
	}
	vxQuiesce()
	close(ll.release) // the write-back completes; the persister loops
	vxQuiesce()
	close(gate) // the merger's cycle ends
	vxQuiesce()
	_, gerr := c.Get([]byte{'a'}, ReadOptions{})
	vxAssert("get-ok", gerr == nil)
	wg.Wait()
	vxAssert("close-ok", c.Close() == nil)
}

// vxDeepHeight: the largest number of segments in the stack or in any of
// its (grand)child stacks - a lower bound on the number of batches in it.
func vxDeepHeight(ss *segmentStack) int {
	if ss == nil {
		return 0
	}
	h := len(ss.a)
	for _, cs := range ss.childSegStacks {
		if ch := vxDeepHeight(cs); ch > h {
			h = ch
		}
	}
	return h
}
