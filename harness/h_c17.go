package moss

import "sync"

// C17: permitted concurrent use is free of data races.
//
// The harnesses below only produce traces; the property is decided by the
// SMT order encoding in the executor (engine/interp/trace.go), which runs
// at the end of every explored path when tracing is enabled. The C03 and
// C16 workloads are registered for C17 as well.

func init() { vxRegister("vxH_C17_mixed", vxH_C17_mixed) }

// vxH_C17_mixed: a store-backed collection (deferred sorting and the
// compaction concern symbolic) used concurrently the way the documentation
// allows: a writer executing batches (with a child collection), a reader
// doing Get / Snapshot / iteration, a goroutine sampling stats, histograms
// and store snapshots, and merger notifications - next to the background
// merger, persister and compactor. Then everything is closed.
func vxH_C17_mixed() {
	fs := vxNewFS()
	so := vxStoreOptions(fs)
	so.CollectionOptions.DeferredSort = vxChoose(2) == 1
	so.CollectionOptions.CachePersisted = vxChoose(2) == 1
	so.CompactionLevelMaxSegments = 1
	so.CompactionPercentage = -1
	po := StorePersistOptions{CompactionConcern: CompactionConcern(vxChoose(3))}
	store, coll, err := OpenStoreCollection(fs.dir, so, po)
	vxAssert("open-ok", err == nil)
	// with a child collection superseded files are never released (known
	// finding C15-child-footer-never-released), so the file clean-up path
	// only runs without one
	withChild := vxChoose(2) == 1
	var wg sync.WaitGroup
	wg.Add(3)
	go func() { // writer: two batches, unsorted keys, a child collection
		defer wg.Done()
		for n := 0; n < 2; n++ {
			b, berr := coll.NewBatch(4, 32)
			if berr != nil {
				return
			}
			b.Set([]byte{'k', byte('2' - n)}, []byte{byte(n), vxU8()})
			b.Set([]byte{'k', byte('0' + n)}, []byte{byte(n)})
			if withChild {
				cb, _ := b.NewChildCollectionBatch("c", BatchOptions{TotalOps: 2, TotalKeyValBytes: 16})
				cb.Set([]byte{'q'}, []byte{byte(n)})
			}
			coll.ExecuteBatch(b, WriteOptions{})
			b.Close()
		}
	}()
	go func() { // reader
		defer wg.Done()
		for n := 0; n < 2; n++ {
			coll.Get([]byte{'k', '1'}, ReadOptions{})
			snap, serr := coll.Snapshot()
			if serr != nil {
				return
			}
			snap.Get([]byte{'k', '0'}, ReadOptions{})
			it, ierr := snap.StartIterator(nil, nil, IteratorOptions{})
			if ierr == nil && it != nil {
				for it.Next() == nil {
				}
				it.Close()
			}
			cs, _ := snap.ChildCollectionSnapshot("c")
			if cs != nil {
				cs.Get([]byte{'q'}, ReadOptions{})
				cs.Close()
			}
			snap.Close()
		}
	}()
	go func() { // monitor
		defer wg.Done()
		coll.Stats()
		coll.Histograms()
		ss, _ := store.Snapshot()
		if ss != nil {
			ss.Get([]byte{'k', '0'}, ReadOptions{})
			ss.Close()
		}
		store.Histograms()
		coll.(*collection).NotifyMerger("mergeAll", false)
		coll.Stats()
	}()
	wg.Wait()
	vxDrain(coll)
	// two more sequential persistence rounds: with compaction the clean-up of
	// the file superseded by one round overlaps the next round
	for n := 0; n < 2; n++ {
		b, berr := coll.NewBatch(1, 8)
		if berr == nil {
			b.Set([]byte{'r', byte('0' + n)}, []byte{byte(n)})
			coll.ExecuteBatch(b, WriteOptions{})
			b.Close()
		}
		vxDrain(coll)
		store.Histograms()
	}
	coll.Stats()
	coll.Close()
	store.Close()
	vxQuiesce()
}

func init() { vxRegister("vxH_C17_deferredSort", vxH_C17_deferredSort) }

// vxH_C17_deferredSort: with DeferredSort a batch segment is sorted by the
// first reader that needs it while every other reader must wait for that
// sorter. Two readers and the merger share one snapshot of unsorted
// segments.
func vxH_C17_deferredSort() {
	ci, err := NewCollection(CollectionOptions{DeferredSort: true})
	vxAssert("new-ok", err == nil)
	c := ci.(*collection)
	nb := 1 + vxChoose(2)
	for n := 0; n < nb; n++ {
		b, _ := c.NewBatch(3, 16)
		b.Set([]byte{'k', byte('2' - n)}, []byte{byte(n), vxU8()})
		b.Set([]byte{'k', byte('0' + n)}, []byte{byte(n)})
		b.Set([]byte{'a'}, []byte{byte(n)})
		c.ExecuteBatch(b, WriteOptions{})
		b.Close()
	}
	snap, serr := c.Snapshot() // taken before anybody has sorted anything
	vxAssert("snapshot-ok", serr == nil)
	c.Start() // the merger will ingest (and need sorted) the same segments
	var wg sync.WaitGroup
	for r := 0; r < 2; r++ {
		wg.Add(1)
		r := r
		go func() {
			defer wg.Done()
			if r == 0 {
				snap.Get([]byte{'a'}, ReadOptions{})
			} else {
				it, ierr := snap.StartIterator(nil, nil, IteratorOptions{})
				if ierr == nil && it != nil {
					for it.Next() == nil {
					}
					it.Close()
				}
			}
		}()
	}
	wg.Wait()
	c.NotifyMerger("mergeAll", true)
	snap.Close()
	c.Close()
}

func init() { vxRegister("vxH_C17_mergeWindow", vxH_C17_mergeWindow) }

// vxH_C17_mergeWindow: a small in-memory (or custom lower level) collection
// whose top section already holds two batches when the merger starts, a
// reader (Stats, Snapshot, Get, iterate) and a writer of a third batch,
// explored with pre-emptions so that the reader runs inside the merger's
// window between ingesting the top section and swapping in the merged
// stack, and inside the hand-over to the persister.
func vxH_C17_mergeWindow() {
	co := CollectionOptions{}
	var ll *vxLL
	if vxChoose(2) == 1 {
		ll = vxNewLL(nil)
		co.LowerLevelInit = ll.snapshot()
		co.LowerLevelUpdate = ll.update
	}
	ci, err := NewCollection(co)
	vxAssert("new-ok", err == nil)
	c := ci.(*collection)
	if ll != nil {
		ll.opts = c.options
		ll.ss.options = c.options
	}
	for n := 0; n < 2; n++ {
		b, _ := c.NewBatch(2, 16)
		b.Set([]byte{'k', byte('0' + n)}, []byte{byte(n), vxU8()})
		b.Set([]byte{'a'}, []byte{byte(n)})
		c.ExecuteBatch(b, WriteOptions{})
		b.Close()
	}
	c.Start()
	var wg sync.WaitGroup
	wg.Add(2)
	go func() { // reader
		defer wg.Done()
		c.Stats()
		snap, serr := c.Snapshot()
		if serr == nil {
			snap.Get([]byte{'a'}, ReadOptions{})
			it, ierr := snap.StartIterator(nil, nil, IteratorOptions{})
			if ierr == nil && it != nil {
				for it.Next() == nil {
				}
				it.Close()
			}
			snap.Close()
		}
		c.Get([]byte{'k', '1'}, ReadOptions{})
		c.Stats()
	}()
	go func() { // writer
		defer wg.Done()
		b, berr := c.NewBatch(1, 8)
		if berr == nil {
			b.Set([]byte{'w'}, []byte{'v'})
			c.ExecuteBatch(b, WriteOptions{})
			b.Close()
		}
	}()
	wg.Wait()
	c.NotifyMerger("mergeAll", true)
	c.Stats()
	c.Close()
}
