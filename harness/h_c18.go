package moss

// C18: ReadOnly never touches the directory.

func init() { vxRegister("vxH_C18_readOnly", vxH_C18_readOnly) }

func vxH_C18_readOnly() {
	kl, vl := 1, 1
	fs := vxNewFS()
	so := vxStoreOptions(fs)
	po := StorePersistOptions{}
	layers := vxPopulate(fs, so, po, 1, kl, vl, vxOpsSet)
	cur := fs.names()
	vxAssert("one-data-file", len(cur) == 1)
	good := fs.content(cur[0])

	// what else a previous run or crash may have left in the directory
	switch vxChoose(7) {
	case 5: // a newer file whose header is incomplete (crash during creation)
		cp := make([]byte, 12)
		copy(cp, good[:12])
		fs.addFile(FormatFName(7), cp)
	case 6: // a newer zero-length file
		fs.addFile(FormatFName(7), []byte{})
	case 1: // an older complete data file
		cp := make([]byte, len(good))
		copy(cp, good)
		fs.addFile(FormatFName(0), cp)
	case 2: // a newer file with a header only (crash right after creation)
		cp := make([]byte, StorePageSize)
		copy(cp, good[:StorePageSize])
		fs.addFile(FormatFName(7), cp)
	case 3: // a non-data file
		fs.addFile("junk.txt", []byte("junk"))
	case 4: // an older file that is not a store file at all
		fs.addFile(FormatFName(0), []byte("not a moss file"))
	}
	before := fs.image()
	fs.mutations = 0
	fs.readOnlyViolations = nil

	so.CollectionOptions.ReadOnly = true
	so.KeepFiles = vxChoose(2) == 1
	po.CompactionConcern = CompactionConcern(vxChoose(3))
	store, coll, err := OpenStoreCollection(fs.dir, so, po)
	if err == nil {
		K := vxNewKey(kl)
		kb := vxKeyBytes(K)
		got, gerr := coll.Get(kb, ReadOptions{})
		vxAssert("ro-get-ok", gerr == nil)
		vxObserveBytes("ro-get", got)
		vxAssert("ro-serves-persisted-content", vxGotIs(got, vxRefGet(K, layers...)))
		// whatever is executed against the collection: up to two operations
		for n := 0; n < 2; n++ {
			switch vxChoose(4) {
			case 1:
				vxExec(coll, vxFixedSet())
			case 2:
				coll.(*collection).NotifyMerger("mergeAll", false)
			case 3:
				ss, _ := coll.Snapshot()
				if ssStack, ok := ss.(*segmentStack); ok {
					store.Persist(ssStack, po)
				}
				ss.Close()
			}
		}
		vxQuiesce()
		coll.Close()
		store.Close()
		vxQuiesce()
	} else {
		vxObserveInt("ro-open-failed", 1)
	}
	vxObserveInt("mutations", fs.mutations)
	vxAssert("ro-no-mutating-file-operation", fs.mutations == 0 && len(fs.readOnlyViolations) == 0)
	vxAssert("ro-directory-unchanged", before.same(fs.image()))
}
