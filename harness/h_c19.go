package moss

// C19: bytes round-trip exactly; limits and API variants are safe.

func init() {
	vxRegister("vxH_C19_codec", vxH_C19_codec)
	vxRegister("vxH_C19_limits", vxH_C19_limits)
}

// Query 1: the op/keyLen/valLen word codec, full 64-bit width.
//
// For every operation word and every keyLen <= maxKeyLength, valLen <=
// maxValLength (no further bound), decode(encode(...)) is the identity and
// the reserved bits are zero. Above the limits the masks alias: the
// solver must find witnesses (checked as reachability, not as failures).
func vxH_C19_codec() {
	op := vxU64()
	keyLen := vxInt()
	valLen := vxInt()
	vxAssume(keyLen >= 0)
	vxAssume(valLen >= 0)
	vxAssume(keyLen <= maxKeyLength)
	vxAssume(valLen <= maxValLength)
	w := encodeOpKeyLenValLen(op, keyLen, valLen)
	o2, k2, v2 := decodeOpKeyLenValLen(w)
	vxObserveU64("word", w)
	vxAssert("op-roundtrip", o2 == op&maskOperation)
	vxAssert("keylen-roundtrip", k2 == keyLen)
	vxAssert("vallen-roundtrip", v2 == valLen)
	vxAssert("reserved-zero", w&maskRESERVED == 0)
	// the three public operation codes survive unchanged
	vxAssert("opcodes-inside-mask", vxAnd(OperationSet&maskOperation == OperationSet,
		vxAnd(OperationDel&maskOperation == OperationDel, OperationMerge&maskOperation == OperationMerge)))
}

// Query 2: limits. mutateEx with fully symbolic lengths rejects exactly the
// lengths above the limits, leaves the segment untouched when it rejects,
// and records a following in-limit operation correctly.
func vxH_C19_limits() {
	seg, _ := newSegment(2, 0)
	keyLen := vxInt()
	valLen := vxInt()
	vxAssume(keyLen >= 0)
	vxAssume(valLen >= 0)
	opSel := vxChoose(3)
	op := []uint64{OperationSet, OperationDel, OperationMerge}[opSel]
	err := seg.mutateEx(op, 0, keyLen, valLen)
	tooBigK := keyLen > maxKeyLength
	tooBigV := valLen > maxValLength
	if err == ErrKeyTooLarge {
		vxAssert("key-too-large-iff", tooBigK)
	} else if err == ErrValueTooLarge {
		vxAssert("val-too-large-iff", vxAnd(vxNot(tooBigK), tooBigV))
	} else {
		vxAssert("accepted-iff-in-limits", vxAnd(err == nil, vxAnd(vxNot(tooBigK), vxNot(tooBigV))))
	}
	if err != nil {
		vxAssert("rejected-untouched", len(seg.kvs) == 0 && seg.totOperationSet == 0 && seg.totOperationDel == 0 &&
			seg.totOperationMerge == 0 && seg.totKeyByte == 0 && seg.totValByte == 0)
	} else {
		vxAssert("accepted-recorded", len(seg.kvs) == 2)
		o2, k2, v2 := decodeOpKeyLenValLen(seg.kvs[0])
		vxAssert("accepted-op", o2 == op)
		vxAssert("accepted-klen", k2 == keyLen)
		vxAssert("accepted-vlen", v2 == valLen)
		vxAssert("accepted-counters", vxAnd(seg.totKeyByte == uint64(keyLen), seg.totValByte == uint64(valLen)))
	}
	// a following in-limit operation is unaffected by whatever happened
	n0 := len(seg.kvs)
	err2 := seg.mutateEx(OperationSet, 0, 1, 1)
	vxAssert("following-op-ok", err2 == nil && len(seg.kvs) == n0+2)
	o3, k3, v3 := decodeOpKeyLenValLen(seg.kvs[n0])
	vxAssert("following-op-decodes", o3 == OperationSet && k3 == 1 && v3 == 1)
}

func init() {
	vxRegister("vxH_C19_alloc", vxH_C19_alloc)
	vxRegister("vxH_C19_persistLoad", vxH_C19_persistLoad)
	vxRegister("vxH_C19_deferredChild", vxH_C19_deferredChild)
}

// vxH_C19_alloc: a batch built with Alloc + AllocSet/AllocDel/AllocMerge
// (key and value cut from one allocation, as documented) reads exactly like
// the batch built with Set/Del/Merge, for every probe key.
func vxH_C19_alloc() {
	kl, vl := 1, 1
	n := 1 + vxChoose(2)
	ents := vxNewBatchEnts(n, kl, vl, vxOpsAll)
	mk := func() (*collection, Batch) {
		ci, _ := NewCollection(CollectionOptions{MergeOperator: vxAppendMO{}})
		c := ci.(*collection)
		b, err := c.NewBatch(n, n*(kl+vl))
		vxAssert("newbatch-ok", err == nil)
		return c, b
	}
	// mixed: a plain Set that outgrows the capacity hint sits between the
	// Alloc of the first entry and its AllocSet/AllocDel/AllocMerge
	mixed := vxChoose(2) == 1
	extraK, extraV := []byte{'z', 'z'}, []byte{'Z'}
	c1, b1 := mk()
	if mixed {
		vxAssert("batch-op-ok", b1.Set(extraK, extraV) == nil)
	}
	vxFillBatch(b1, ents)
	c2, b2 := mk()
	used := 0
	separate := vxChoose(2) == 1
	for i, e := range ents {
		kb, vb := vxKeyBytes(e.k), vxValBytes(e.v)
		used += len(kb) + len(vb)
		var ak, av []byte
		var err error
		if separate {
			// key and value from two Alloc calls (Alloc(0) for an empty one)
			ak, err = b2.Alloc(len(kb))
			vxAssert("alloc-ok", err == nil)
			copy(ak, kb)
			av, err = b2.Alloc(len(vb))
			vxAssert("alloc-ok", err == nil)
			copy(av, vb)
		} else {
			var buf []byte
			buf, err = b2.Alloc(len(kb) + len(vb))
			vxAssert("alloc-ok", err == nil)
			copy(buf, kb)
			copy(buf[len(kb):], vb)
			ak, av = buf[:len(kb)], buf[len(kb):]
		}
		if mixed && i == 0 {
			vxAssert("batch-op-ok", b2.Set(extraK, extraV) == nil)
		}
		if e.op == OperationSet {
			err = b2.AllocSet(ak, av)
		} else if e.op == OperationDel {
			err = b2.AllocDel(ak)
		} else {
			err = b2.AllocMerge(ak, av)
		}
		vxAssert("alloc-op-ok", err == nil)
		if mixed && i == 0 && n > 1 {
			break // the buffer has been replaced; one entry is enough here
		}
	}
	if mixed && n > 1 {
		// the reference batch must hold the same operations
		c1, b1 = mk()
		vxAssert("batch-op-ok", b1.Set(extraK, extraV) == nil)
		vxFillBatch(b1, ents[:1])
		ents = ents[:1]
	}
	if !mixed {
		_, aerr := b2.Alloc(n*(kl+vl) - used + 1)
		vxAssert("alloc-beyond-capacity-rejected", aerr == ErrAllocTooLarge)
	}
	vxAssert("exec1-ok", c1.ExecuteBatch(b1, WriteOptions{}) == nil)
	vxAssert("exec2-ok", c2.ExecuteBatch(b2, WriteOptions{}) == nil)
	K := vxNewKey(kl)
	kb := vxKeyBytes(K)
	s1, _ := c1.Snapshot()
	s2, _ := c2.Snapshot()
	g1, e1 := s1.Get(kb, ReadOptions{})
	g2, e2 := s2.Get(kb, ReadOptions{})
	vxAssert("gets-ok", e1 == nil && e2 == nil)
	vxObserveBytes("plain", g1)
	vxObserveBytes("alloc", g2)
	vxAssert("alloc-batch-reads-like-plain-batch", (g1 == nil) == (g2 == nil) && vxBytesEq(g1, g2))
	vxAssert("plain-batch-matches-fold", vxFoldIs(g1, vxRefFold(K, ents)))
	if mixed {
		x1, xe1 := s1.Get(extraK, ReadOptions{})
		x2, xe2 := s2.Get(extraK, ReadOptions{})
		vxAssert("plain-op-next-to-alloc-ops-reads-back", xe1 == nil && xe2 == nil && vxBytesEq(x1, extraV) && vxBytesEq(x2, extraV))
	}
	s1.Close()
	s2.Close()
}

// vxH_C19_persistLoad: persistBasicSegment at a file position around page
// boundaries (behind the header page) followed by loadBasicSegment yields page-aligned,
// non-overlapping regions and the same operation, key and value for every
// entry - including the empty key, empty values and bytes 0x00 / 0xFF /
// magic look-alikes (all bytes are symbolic).
func vxH_C19_persistLoad() {
	kl, vl := 2, 1
	n := 1 + vxChoose(2)
	ents := vxNewEnts(n, kl, vl, vxOpsAll)
	seg, _ := newSegment(n, n*vxStride)
	for _, e := range ents {
		seg.mutate(e.op, vxKeyBytes(e.k), vxValBytes(e.v))
	}
	fs := vxNewFS()
	f, err := fs.openFile(fs.dir+"/data-0000000000000001.moss", 0x42 /* O_RDWR|O_CREATE */, 0600)
	vxAssert("create-ok", err == nil)
	// pos is what the only caller, (*segment).Persist, passes: the current
	// size of a data file, which begins with the page-sized header
	// (persistHeader), so pos >= StorePageSize. Positions inside page 0 are
	// not reachable and are outside the claim (there the empty-buf segment
	// fails doLoadSegments' file-size test).
	positions := []int64{4096, 4097, 8191, 8192, 8193, 12287}
	pos := positions[vxChoose(len(positions))]
	f.WriteAt(make([]byte, pos), 0)
	sloc, perr := persistBasicSegment(seg, f, pos, nil)
	vxAssert("persist-ok", perr == nil)
	vxAssert("kvs-page-aligned", sloc.KvsOffset%4096 == 0 && int64(sloc.KvsOffset) >= pos)
	vxAssert("buf-page-aligned", sloc.BufOffset%4096 == 0)
	vxAssert("regions-do-not-overlap", sloc.KvsOffset+sloc.KvsBytes <= sloc.BufOffset)
	// load it back through the real footer machinery
	foot := &Footer{refs: 1, SegmentLocs: SegmentLocs{sloc}}
	fref := &FileRef{file: f, refs: 1}
	so := vxStoreOptions(fs)
	lerr := foot.loadSegments(&so, fref)
	vxAssert("load-ok", lerr == nil)
	loaded := foot.ss.a[0].(*segment)
	vxAssert("same-number-of-entries", loaded.Len() == n)
	for i, e := range ents {
		op, k, v := loaded.getOperationKeyVal(i)
		vxAssert("op-round-trips", op == e.op)
		vxAssert("key-round-trips", vxKeyEq(vxKeyOf(k), e.k))
		vxAssert("value-round-trips", vxValIs(v, e.v))
		vxAssert("loaded-slices-not-nil", k != nil && v != nil)
	}
	foot.Close()
}

// vxH_C19_deferredChild: DeferredSort on/off and a batch whose operations
// may all sit in a child collection (two keys in arbitrary order): reads
// of parent and child equal the oracle, iteration is in bytewise order.
func vxH_C19_deferredChild() {
	kl, vl := 1, 1
	ci, _ := NewCollection(CollectionOptions{DeferredSort: vxChoose(2) == 1})
	c := ci.(*collection)
	c.Start()
	b, err := c.NewBatch(2, 8)
	vxAssert("newbatch-ok", err == nil)
	var parent []vxEnt
	if vxChoose(2) == 1 {
		parent = vxNewBatchEnts(1, kl, vl, vxOpsSetDel)
		vxFillBatch(b, parent)
	}
	cb, cerr := b.NewChildCollectionBatch("c", BatchOptions{TotalOps: 2, TotalKeyValBytes: 8})
	vxAssert("childbatch-ok", cerr == nil)
	child := vxNewBatchEnts(2, kl, vl, vxOpsSetDel)
	vxFillBatch(cb, child)
	vxAssert("exec-ok", c.ExecuteBatch(b, WriteOptions{}) == nil)
	if vxChoose(2) == 1 {
		c.NotifyMerger("mergeAll", true)
	}
	K := vxNewKey(kl)
	kb := vxKeyBytes(K)
	snap, serr := c.Snapshot()
	vxAssert("snapshot-ok", serr == nil)
	pg, perr := snap.Get(kb, ReadOptions{})
	vxAssert("parent-get-ok", perr == nil)
	vxAssert("parent-content", vxGotIs(pg, vxRefGet(K, parent)))
	cs, cserr := snap.ChildCollectionSnapshot("c")
	vxAssert("child-snapshot-ok", cserr == nil && cs != nil)
	cg, cgerr := cs.Get(kb, ReadOptions{})
	vxAssert("child-get-ok", cgerr == nil)
	vxObserveBytes("child-get", cg)
	vxAssert("child-content", vxGotIs(cg, vxRefGet(K, child)))
	vxCheckIteration("child", cs, [][]vxEnt{child})
	cs.Close()
	snap.Close()
	c.Close()
}
