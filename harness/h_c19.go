package moss

// C19: bytes round-trip exactly; limits and API variants are safe.

func init() {
	vxRegister("vxH_C19_codec", vxH_C19_codec)
	vxRegister("vxH_C19_limits", vxH_C19_limits)
}

// Query 1: the op/keyLen/valLen word codec, full 64-bit width.
//
// For every operation word and every keyLen <= maxKeyLength, valLen <=
// maxValLength (no further bound), decode(encode(...)) is the identity and
// the reserved bits are zero. Above the limits the masks alias: the
// solver must find witnesses (checked as reachability, not as failures).
func vxH_C19_codec() {
	op := vxU64()
	keyLen := vxInt()
	valLen := vxInt()
	vxAssume(keyLen >= 0)
	vxAssume(valLen >= 0)
	vxAssume(keyLen <= maxKeyLength)
	vxAssume(valLen <= maxValLength)
	w := encodeOpKeyLenValLen(op, keyLen, valLen)
	o2, k2, v2 := decodeOpKeyLenValLen(w)
	vxObserveU64("word", w)
	vxAssert("op-roundtrip", o2 == op&maskOperation)
	vxAssert("keylen-roundtrip", k2 == keyLen)
	vxAssert("vallen-roundtrip", v2 == valLen)
	vxAssert("reserved-zero", w&maskRESERVED == 0)
	// the three public operation codes survive unchanged
	vxAssert("opcodes-inside-mask", vxAnd(OperationSet&maskOperation == OperationSet,
		vxAnd(OperationDel&maskOperation == OperationDel, OperationMerge&maskOperation == OperationMerge)))
}

// Query 2: limits. mutateEx with fully symbolic lengths rejects exactly the
// lengths above the limits, leaves the segment untouched when it rejects,
// and records a following in-limit operation correctly.
func vxH_C19_limits() {
	seg, _ := newSegment(2, 0)
	keyLen := vxInt()
	valLen := vxInt()
	vxAssume(keyLen >= 0)
	vxAssume(valLen >= 0)
	opSel := vxChoose(3)
	op := []uint64{OperationSet, OperationDel, OperationMerge}[opSel]
	err := seg.mutateEx(op, 0, keyLen, valLen)
	tooBigK := keyLen > maxKeyLength
	tooBigV := valLen > maxValLength
	if err == ErrKeyTooLarge {
		vxAssert("key-too-large-iff", tooBigK)
	} else if err == ErrValueTooLarge {
		vxAssert("val-too-large-iff", vxAnd(vxNot(tooBigK), tooBigV))
	} else {
		vxAssert("accepted-iff-in-limits", vxAnd(err == nil, vxAnd(vxNot(tooBigK), vxNot(tooBigV))))
	}
	if err != nil {
		vxAssert("rejected-untouched", len(seg.kvs) == 0 && seg.totOperationSet == 0 && seg.totOperationDel == 0 &&
			seg.totOperationMerge == 0 && seg.totKeyByte == 0 && seg.totValByte == 0)
	} else {
		vxAssert("accepted-recorded", len(seg.kvs) == 2)
		o2, k2, v2 := decodeOpKeyLenValLen(seg.kvs[0])
		vxAssert("accepted-op", o2 == op)
		vxAssert("accepted-klen", k2 == keyLen)
		vxAssert("accepted-vlen", v2 == valLen)
		vxAssert("accepted-counters", vxAnd(seg.totKeyByte == uint64(keyLen), seg.totValByte == uint64(valLen)))
	}
	// a following in-limit operation is unaffected by whatever happened
	n0 := len(seg.kvs)
	err2 := seg.mutateEx(OperationSet, 0, 1, 1)
	vxAssert("following-op-ok", err2 == nil && len(seg.kvs) == n0+2)
	o3, k3, v3 := decodeOpKeyLenValLen(seg.kvs[n0])
	vxAssert("following-op-decodes", o3 == OperationSet && k3 == 1 && v3 == 1)
}
