package moss

// C20: zero dirty gauges mean everything is in the lower level.

func init() { vxRegister("vxH_C20_gauges", vxH_C20_gauges) }

// vxMaybeChildStack returns a stack that may hold a segment of its own
// and/or a child stack "c" with a segment (chosen symbolically).
func vxMaybeChildStack(opts *CollectionOptions) (ss *segmentStack, nonEmpty bool) {
	switch vxChoose(5) {
	case 0:
		return nil, false
	case 1: // present but empty
		return &segmentStack{options: opts, refs: 1}, false
	case 2: // own data
		ss = &segmentStack{options: opts, refs: 1}
		ss.a = append(ss.a, vxSegOf(vxNewEnts(1, 1, 1, vxOpsSetDel)))
		return ss, true
	case 3: // child-only data
		child := &segmentStack{options: opts, refs: 1, incarNum: 1}
		child.a = append(child.a, vxSegOf(vxNewEnts(1, 1, 1, vxOpsSetDel)))
		ss = &segmentStack{options: opts, refs: 1, childSegStacks: map[string]*segmentStack{"c": child}}
		return ss, true
	default: // grandchild-only data
		grand := &segmentStack{options: opts, refs: 1, incarNum: 2}
		grand.a = append(grand.a, vxSegOf(vxNewEnts(1, 1, 1, vxOpsSetDel)))
		child := &segmentStack{options: opts, refs: 1, incarNum: 1, childSegStacks: map[string]*segmentStack{"g": grand}}
		ss = &segmentStack{options: opts, refs: 1, childSegStacks: map[string]*segmentStack{"c": child}}
		return ss, true
	}
}

// vxH_C20_gauges: on an arbitrary state including child stacks in every
// dirty section, CurDirtyOps = CurDirtyBytes = CurDirtySegments = 0 implies
// top, mid and base are recursively empty.
func vxH_C20_gauges() {
	ci, _ := NewCollection(CollectionOptions{})
	c := ci.(*collection)
	var ne [3]bool
	c.stackDirtyTop, ne[0] = vxMaybeChildStack(c.options)
	c.stackDirtyMid, ne[1] = vxMaybeChildStack(c.options)
	c.stackDirtyBase, ne[2] = vxMaybeChildStack(c.options)
	if c.stackDirtyTop != nil && c.stackDirtyTop.childSegStacks != nil ||
		c.stackDirtyMid != nil && c.stackDirtyMid.childSegStacks != nil ||
		c.stackDirtyBase != nil && c.stackDirtyBase.childSegStacks != nil {
		c.childCollections = map[string]*collection{"c": {options: c.options, stats: c.stats, incarNum: 1}}
	}
	st, err := c.Stats()
	vxAssert("stats-ok", err == nil)
	zero := vxAnd(st.CurDirtyOps == 0, vxAnd(st.CurDirtyBytes == 0, st.CurDirtySegments == 0))
	anyData := ne[0] || ne[1] || ne[2]
	childOnly := false
	for _, ss := range []*segmentStack{c.stackDirtyTop, c.stackDirtyMid, c.stackDirtyBase} {
		if ss != nil && len(ss.a) == 0 && !ss.isEmpty() {
			childOnly = true
		}
	}
	vxObserveU64("dirty-ops", st.CurDirtyOps)
	vxObserveU64("dirty-segments", st.CurDirtySegments)
	// known finding: per-stack statistics ignore child segment stacks
	vxAssertK("zero-gauges-imply-nothing-dirty", vxImplies(zero, !anyData),
		"C20-child-stacks-not-counted", childOnly)
	// own segments are always counted; empty sections report zero
	own := 0
	for _, ss := range []*segmentStack{c.stackDirtyTop, c.stackDirtyMid, c.stackDirtyBase} {
		if ss != nil {
			own += len(ss.a)
		}
	}
	vxAssert("own-segments-counted", st.CurDirtySegments >= uint64(own))
	vxAssert("nothing-dirty-means-zero-gauges", vxImplies(!anyData, zero))
}

func init() { vxRegister("vxH_C20_converse", vxH_C20_converse) }

// vxH_C20_converse: a store-backed collection executes batches (parent
// only / child only / both) and is then left alone - no explicit merger
// notification. Once every background goroutine is idle the dirty gauges
// must be back at zero and the store's own snapshot must hold every batch
// (the gauges do not stay non-zero forever; zero means persisted).
func vxH_C20_converse() {
	fs := vxNewFS()
	so := vxStoreOptions(fs)
	so.CollectionOptions.CachePersisted = vxChoose(2) == 1
	store, coll, err := OpenStoreCollection(fs.dir, so, StorePersistOptions{})
	vxAssert("open-ok", err == nil)
	ref := vxNewNode()
	names := []string{"a"}
	none := map[string]bool{}
	var grand [][]vxEnt // what was written to the grandchild a/g
	wroteEmpty := false
	nb := 1 + vxChoose(2)
	for n := 0; n < nb; n++ {
		b, berr := coll.NewBatch(4, 64)
		vxAssert("newbatch-ok", berr == nil)
		shape := vxChoose(5) // 0 parent, 1 child, 2 both, 3 grandchild only, 4 Set("","") only
		if shape == 4 {
			// a batch without any key or value bytes
			vxAssert("batch-op-ok", b.Set([]byte{}, []byte{}) == nil)
			wroteEmpty = true
		}
		if shape == 3 {
			cb, cerr := b.NewChildCollectionBatch("a", BatchOptions{TotalOps: 2, TotalKeyValBytes: 16})
			vxAssert("childbatch-ok", cerr == nil)
			gb, gerr := cb.NewChildCollectionBatch("g", BatchOptions{TotalOps: 2, TotalKeyValBytes: 16})
			vxAssert("grandchildbatch-ok", gerr == nil)
			ents := vxFixedSet()
			vxFillBatch(gb, ents)
			if ref.kids["a"] == nil {
				ref.kids["a"] = vxNewNode()
			}
			grand = append(grand, ents)
		}
		if shape == 0 || shape == 2 {
			ents := vxFixedSet()
			vxFillBatch(b, ents)
			ref.layers = append(ref.layers, ents)
		}
		if shape == 1 || shape == 2 {
			cb, cerr := b.NewChildCollectionBatch("a", BatchOptions{TotalOps: 2, TotalKeyValBytes: 16})
			vxAssert("childbatch-ok", cerr == nil)
			ents := vxFixedEnt()
			vxFillBatch(cb, ents)
			if ref.kids["a"] == nil {
				ref.kids["a"] = vxNewNode()
			}
			ref.kids["a"].layers = append(ref.kids["a"].layers, ents)
		}
		vxAssert("executebatch-ok", coll.ExecuteBatch(b, WriteOptions{}) == nil)
		b.Close()
		if vxChoose(2) == 1 {
			vxQuiesce()
		}
	}
	vxQuiesce()
	st, serr := coll.Stats()
	vxAssert("stats-ok", serr == nil)
	vxObserveU64("dirty-ops", st.CurDirtyOps)
	vxObserveU64("dirty-segments", st.CurDirtySegments)
	vxAssertK("idle-collection-drains-by-itself", st.CurDirtyOps == 0 && st.CurDirtyBytes == 0 && st.CurDirtySegments == 0,
		"C20-child-only-batch-does-not-wake-merger", len(ref.kids) > 0)
	if st.CurDirtyOps == 0 && st.CurDirtyBytes == 0 && st.CurDirtySegments == 0 {
		var K, J vxKey
		K.n, J.n = 1, 1
		K.b[0], J.b[0] = 'k', 'j'
		ss, _ := store.Snapshot()
		vxCheckTree("store", ss, ref, K, vxKeyBytes(K), names, none)
		vxCheckTree("store2", ss, ref, J, vxKeyBytes(J), names, none)
		if wroteEmpty {
			ev, eerr := ss.Get([]byte{}, ReadOptions{})
			vxAssert("store-empty-key-present", eerr == nil && ev != nil && len(ev) == 0)
		}
		if len(grand) > 0 {
			var got []byte
			if as, _ := ss.ChildCollectionSnapshot("a"); as != nil {
				if gs, _ := as.ChildCollectionSnapshot("g"); gs != nil {
					got, _ = gs.Get(vxKeyBytes(K), ReadOptions{})
					gs.Close()
				}
				as.Close()
			}
			vxAssert("store-grandchild-content", vxGotIs(got, vxRefGet(K, grand...)))
		}
		ss.Close()
	}
	coll.Close()
	store.Close()
}
