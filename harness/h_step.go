package moss

// Inductive steps on an arbitrary collection state: one real merger cycle
// (plain or merge-all, with or without a persist in flight) must leave
// every read unchanged. The pre-state places operations on two fixed keys
// ("k" and "z") with symbolic kinds and values over the five sections, so
// that states which histories reach only with a blocked persister (a
// non-empty dirty base under a working merger) are covered directly.

func init() {
	vxRegister("vxH_C01_mergerStep", vxH_C01_mergerStep)
	vxRegister("vxH_C08_mergerStep", vxH_C08_mergerStep)
}

// vxFixedSeg: a sorted segment with operations on "k" and/or "z".
func vxFixedSeg(alphabet int) []vxEnt { return vxFixedSegW(alphabet, vxChoose(3)) }

// vxFixedSegW: which = 0: only "k", 1: only "z", 2: both.
func vxFixedSegW(alphabet, which int) []vxEnt {
	var ents []vxEnt
	for _, kb := range []byte{'k', 'z'} {
		if (kb == 'k' && which == 1) || (kb == 'z' && which == 0) {
			continue
		}
		var e vxEnt
		e.k.n, e.k.b[0] = 1, kb
		if alphabet == vxOpsAll {
			// merge folds make heavy terms: pick the kind as a choice
			// variable (concretized by the solver) instead of a free one
			e.op = []uint64{OperationSet, OperationDel, OperationMerge}[vxChoose(3)]
			e.v.b[0] = vxU8()
			if e.op != OperationDel {
				e.v.n = 1
			}
		} else {
			e.op = vxNewOp(alphabet)
			e.v.b[0] = vxU8()
			e.v.n = vxIteInt(e.op == OperationDel, 0, 1)
		}
		ents = append(ents, e)
	}
	return ents
}

// vxMkCollFixed builds an unstarted collection in a state that satisfies
// the invariant real histories maintain between the clean section and the
// lower level: the clean section is a cache of the last persisted round, so
// its operations are also the newest operations of the lower level, and
// (since unresolved merges are never cached) it holds only Set/Del.
func vxMkCollFixed(maxSecs, maxSegs, alphabet int, mo MergeOperator) *vxColl {
	ci, _ := NewCollection(CollectionOptions{MergeOperator: mo})
	c := ci.(*collection)
	vc := &vxColl{c: c}
	used := 0
	var llStack *segmentStack
	for sec := 0; sec < 5; sec++ {
		if used >= maxSecs || vxChoose(2) == 0 {
			continue
		}
		if sec == 1 && llStack == nil {
			continue // nothing was persisted, so nothing can be cached
		}
		used++
		ss := &segmentStack{options: c.options, refs: 1}
		nseg := 1
		if sec >= 3 && maxSegs > 1 { // mid and top may hold several segments
			nseg = 1 + vxChoose(maxSegs)
		}
		for s := 0; s < nseg; s++ {
			a := alphabet
			if sec == 1 || (sec == 0 && vxTier() == 0) {
				a = vxOpsSetDel
			}
			// every segment has an operation on "k"; segments of mid/top may
			// also carry "z" so that the merge iterator has several cursors
			// (quick tier: only the newest segment of top)
			which := 0
			if sec >= 3 && (vxTier() == 1 || (sec == 4 && s == nseg-1)) && vxChoose(2) == 1 {
				which = 2
			}
			ents := vxFixedSegW(a, which)
			vc.layers = append(vc.layers, ents)
			ss.a = append(ss.a, vxSegOf(ents))
			if sec == 1 {
				llStack.a = append(llStack.a, vxSegOf(ents))
			}
		}
		switch sec {
		case 0:
			llStack = ss
			c.lowerLevelSnapshot = NewSnapshotWrapper(ss, nil)
		case 1:
			c.stackClean = ss
		case 2:
			// as mergerNotifyPersister leaves it: the base sees the lower
			// level it is going to be persisted onto
			ss.lowerLevelSnapshot = c.lowerLevelSnapshot.addRef()
			c.stackDirtyBase = ss
		case 3:
			// as a merger cycle leaves it
			ss.lowerLevelSnapshot = c.lowerLevelSnapshot.addRef()
			c.stackDirtyMid = ss
		case 4:
			c.stackDirtyTop = ss
		}
	}
	return vc
}

func vxMergerStep(alphabet int, mo MergeOperator, fold bool) {
	maxSecs, maxSegs := 3, 2
	if vxTier() == 1 {
		maxSecs = 4
	}
	vc := vxMkCollFixed(maxSecs, maxSegs, alphabet, mo)
	c := vc.c
	kind := "go"
	if vxChoose(2) == 1 {
		kind = "mergeAll"
	}
	c.Start()
	c.NotifyMerger(kind, true)
	vxQuiesce()
	for _, kb := range []byte{'k'} {
		var K vxKey
		K.n, K.b[0] = 1, kb
		key := []byte{kb}
		snap, err := c.Snapshot()
		vxAssert("snapshot-ok", err == nil)
		sgot, serr := snap.Get(key, ReadOptions{})
		vxAssert("snapshot-get-ok", serr == nil)
		cgot, cerr := c.Get(key, ReadOptions{})
		vxAssert("collection-get-ok", cerr == nil)
		vxObserveBytes("after-cycle", sgot)
		if fold {
			ref := vxRefFold(K, vc.layers...)
			vxAssert("merger-cycle-keeps-the-fold", vxFoldIs(sgot, ref))
			vxAssert("merger-cycle-keeps-the-fold-collection-get", vxFoldIs(cgot, ref))
		} else {
			ref := vxRefGet(K, vc.layers...)
			vxAssert("merger-cycle-keeps-reads", vxGotIs(sgot, ref))
			vxAssert("merger-cycle-keeps-reads-collection-get", vxGotIs(cgot, ref))
		}
		snap.Close()
	}
	c.Close()
}

// vxH_C01_mergerStep: Set/Del only.
func vxH_C01_mergerStep() { vxMergerStep(vxOpsSetDel, nil, false) }

// vxH_C08_mergerStep: Set/Del/Merge with the appending operator.
func vxH_C08_mergerStep() { vxMergerStep(vxOpsAll, vxAppendMO{}, true) }

func init() { vxRegister("vxH_C01_partialMerge", vxH_C01_partialMerge) }

// vxH_C01_partialMerge: a merger cycle that merges only the upper part of
// the stack (MinMergePercentage: an older, bigger segment stays as it is
// and the smaller newer ones are merged on top of it). Pre-state: an
// optional lower level, a big segment with operations on "k" and "z" in
// the mid section, two one-operation segments on "k" (Set or Del, symbolic)
// in the top section. After one plain merger cycle every read equals the
// reference; the witness observation shows that the cycle really kept the
// big segment unmerged.
func vxH_C01_partialMerge() {
	ci, _ := NewCollection(CollectionOptions{})
	c := ci.(*collection)
	var layers [][]vxEnt
	if vxChoose(2) == 1 {
		ents := vxFixedSegW(vxOpsSetDel, 0)
		layers = append(layers, ents)
		c.lowerLevelSnapshot = NewSnapshotWrapper(&segmentStack{options: c.options, refs: 1, a: []Segment{vxSegOf(ents)}}, nil)
	}
	big := vxFixedSegW(vxOpsSetDel, 2)
	layers = append(layers, big)
	mid := &segmentStack{options: c.options, refs: 1, a: []Segment{vxSegOf(big)}}
	mid.lowerLevelSnapshot = c.lowerLevelSnapshot.addRef()
	c.stackDirtyMid = mid
	top := &segmentStack{options: c.options, refs: 1, numBatches: 2}
	for s := 0; s < 2; s++ {
		ents := vxFixedSegW(vxOpsSetDel, 0)
		layers = append(layers, ents)
		top.a = append(top.a, vxSegOf(ents))
	}
	c.stackDirtyTop = top
	c.Start()
	c.NotifyMerger("go", true)
	vxQuiesce()
	c.m.Lock()
	h := 0
	if c.stackDirtyMid != nil {
		h = len(c.stackDirtyMid.a)
	}
	c.m.Unlock()
	vxObserveInt("mid-height-after-cycle", h)
	vxAssert("witness-the-cycle-was-a-partial-merge", h == 2)
	snap, err := c.Snapshot()
	vxAssert("snapshot-ok", err == nil)
	for _, kb := range []byte{'k', 'z'} {
		var K vxKey
		K.n, K.b[0] = 1, kb
		got, gerr := snap.Get([]byte{kb}, ReadOptions{})
		vxAssert("snapshot-get-ok", gerr == nil)
		vxAssert("merger-cycle-keeps-reads", vxGotIs(got, vxRefGet(K, layers...)))
		cgot, cerr := c.Get([]byte{kb}, ReadOptions{})
		vxAssert("collection-get-ok", cerr == nil)
		vxAssert("merger-cycle-keeps-reads-collection-get", vxGotIs(cgot, vxRefGet(K, layers...)))
	}
	vxCheckIteration("after-cycle", snap, layers)
	snap.Close()
	c.Close()
}
