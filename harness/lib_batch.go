package moss

// Batches and histories through the public API.

// vxNewBatchEnts creates n operations with pairwise distinct keys in
// arbitrary (symbolic) order - what a client may put into one batch.
func vxNewBatchEnts(n, kl, vl, alphabet int) []vxEnt {
	ents := make([]vxEnt, n)
	for i := range ents {
		ents[i].op = vxNewOp(alphabet)
		ents[i].k = vxNewKey(kl)
		ents[i].v = vxNewVal(vl)
		vxAssume(vxOr(ents[i].op != OperationDel, ents[i].v.n == 0))
		for j := 0; j < i; j++ {
			vxAssume(vxNot(vxKeyEq(ents[j].k, ents[i].k)))
		}
	}
	return ents
}

// vxFillBatch applies ents to b with Set/Del/Merge. The operation kind is
// decided by branching on the symbolic op (forks).
func vxFillBatch(b Batch, ents []vxEnt) {
	for _, e := range ents {
		kb := vxKeyBytes(e.k)
		var err error
		if e.op == OperationSet {
			err = b.Set(kb, vxValBytes(e.v))
		} else if e.op == OperationDel {
			err = b.Del(kb)
		} else {
			err = b.Merge(kb, vxValBytes(e.v))
		}
		vxAssert("batch-op-ok", err == nil)
	}
}

// vxExec builds and executes one batch on c.
func vxExec(c Collection, ents []vxEnt) {
	b, err := c.NewBatch(len(ents), len(ents)*vxStride)
	vxAssert("newbatch-ok", err == nil)
	vxFillBatch(b, ents)
	err = c.ExecuteBatch(b, WriteOptions{})
	vxAssert("executebatch-ok", err == nil)
	b.Close()
}

// vxCheckSnapshot compares a snapshot with the reference layers: Get of a
// fresh symbolic probe key and a full ascending iteration.
func vxCheckSnapshot(tag string, snap Snapshot, kl int, layers [][]vxEnt) {
	K := vxNewKey(kl)
	kb := vxKeyBytes(K)
	got, err := snap.Get(kb, ReadOptions{})
	vxAssert(tag+"-get-ok", err == nil)
	vxObserveBytes(tag+"-get", got)
	vxAssert(tag+"-get-matches-reference", vxGotIs(got, vxRefGet(K, layers...)))
	vxCheckIteration(tag, snap, layers)
}

// vxCheckIteration: a full ascending iteration yields exactly the live
// keys with their values (relational check: every returned key is live
// with the reference value, keys strictly ascend, no live key is skipped).
func vxCheckIteration(tag string, snap Snapshot, layers [][]vxEnt) {
	it, err := snap.StartIterator(nil, nil, IteratorOptions{})
	vxAssert(tag+"-iter-ok", err == nil)
	if it == nil {
		return
	}
	hasPrev := false
	var prev vxKey
	total := 0
	for _, l := range layers {
		total += len(l)
	}
	for n := 0; n <= total; n++ {
		k, v, cerr := it.Current()
		if cerr == ErrIteratorDone {
			break
		}
		vxAssert(tag+"-iter-current-ok", cerr == nil)
		vxAssert(tag+"-iter-bounded", n < total)
		ck := vxKeyOf(k)
		ref := vxRefGet(ck, layers...)
		vxAssert(tag+"-iter-live-with-value", vxAnd(ref.live, vxValIs(v, ref.v)))
		if hasPrev {
			vxAssert(tag+"-iter-ascending", vxKeyLess(prev, ck))
		}
		vxAssert(tag+"-iter-nothing-skipped", vxNoLiveBetween(hasPrev, prev, true, ck, vxAllKeys, layers...))
		hasPrev, prev = true, ck
		nerr := it.Next()
		vxAssert(tag+"-iter-next-err", nerr == nil || nerr == ErrIteratorDone)
	}
	vxAssert(tag+"-iter-complete", vxNoLiveBetween(hasPrev, prev, false, prev, vxAllKeys, layers...))
	it.Close()
}
