package moss

// Native twin of lib_fs_sym.go: a real temporary directory and real files,
// wrapped for fault injection and bookkeeping, so that counterexamples of
// store-backed harnesses can be replayed against the real build (real
// os.File, real mmap, real os.Remove).

import (
	"errors"
	"io/ioutil"
	"os"
	"path/filepath"
	"sort"
	"strings"
	"sync"
	"time"
)

type vxFSOp struct {
	kind string
	name string
	off  int64
	data []byte
	size int64
}

type vxFS struct {
	dir    string
	log    []vxFSOp
	record bool

	nops     int
	failAt   int
	failN    int
	shortLen int
	faulted  int

	readOnlyViolations []string
	mutations          int

	wmu     sync.Mutex
	pending []*vxTicket
	writing bool
}

var vxTheFS *vxFS
var vxNativeDirs []string

var vxErrIO = errors.New("vx: injected I/O error")

func vxNewFS() *vxFS {
	dir, err := ioutil.TempDir("", "vxfs")
	if err != nil {
		panic(err)
	}
	vxNativeDirs = append(vxNativeDirs, dir)
	fs := &vxFS{dir: dir, failAt: -1}
	vxTheFS = fs
	return fs
}

func vxNativeCleanup() {
	for _, d := range vxNativeDirs {
		os.RemoveAll(d)
	}
	vxNativeDirs = nil
}

func (fs *vxFS) fail() bool {
	n := fs.nops
	fs.nops++
	if fs.failAt >= 0 && n >= fs.failAt && n < fs.failAt+fs.failN {
		fs.faulted++
		return true
	}
	return false
}

func (fs *vxFS) names() []string {
	fis, _ := ioutil.ReadDir(fs.dir)
	var out []string
	for _, fi := range fis {
		out = append(out, fi.Name())
	}
	sort.Strings(out)
	return out
}

func (fs *vxFS) content(name string) []byte {
	b, _ := ioutil.ReadFile(filepath.Join(fs.dir, name))
	return b
}

func (fs *vxFS) addFile(name string, data []byte) {
	ioutil.WriteFile(filepath.Join(fs.dir, name), data, 0600)
}

func (fs *vxFS) openFile(path string, flag int, perm os.FileMode) (File, error) {
	if fs.fail() {
		return nil, vxErrIO
	}
	if flag&os.O_CREATE != 0 {
		fs.mutations++
		if fs.record {
			fs.log = append(fs.log, vxFSOp{kind: "create", name: filepath.Base(path)})
		}
	}
	if flag&(os.O_RDWR|os.O_WRONLY) != 0 {
		fs.readOnlyViolations = append(fs.readOnlyViolations, "open for writing: "+filepath.Base(path))
	}
	f, err := os.OpenFile(path, flag, perm)
	if err != nil {
		return nil, err
	}
	return &vxHandle{fs: fs, f: f, name: filepath.Base(path)}, nil
}

type vxHandle struct {
	fs   *vxFS
	f    *os.File
	name string
}

func (h *vxHandle) OsFile() *os.File { return h.f }

func (h *vxHandle) ReadAt(p []byte, off int64) (int, error) {
	if h.fs.fail() {
		return 0, vxErrIO
	}
	return h.f.ReadAt(p, off)
}

// orderWrite makes the numbering of concurrent WriteAt calls deterministic:
// moss issues the kvs and buf writes of a segment from two goroutines; the
// executor runs them in goroutine-creation order (ascending offset), so the
// native twin lets concurrent writes settle for a moment and then admits
// them in ascending offset order.
func (fs *vxFS) orderWrite(off int64) func() {
	fs.wmu.Lock()
	t := &vxTicket{off: off}
	fs.pending = append(fs.pending, t)
	fs.wmu.Unlock()
	time.Sleep(4 * time.Millisecond)
	for {
		fs.wmu.Lock()
		min := fs.pending[0]
		for _, q := range fs.pending {
			if q.off < min.off {
				min = q
			}
		}
		if min == t && !fs.writing {
			fs.writing = true
			fs.wmu.Unlock()
			break
		}
		fs.wmu.Unlock()
		time.Sleep(200 * time.Microsecond)
	}
	return func() {
		fs.wmu.Lock()
		for i, q := range fs.pending {
			if q == t {
				fs.pending = append(fs.pending[:i], fs.pending[i+1:]...)
				break
			}
		}
		fs.writing = false
		fs.wmu.Unlock()
	}
}

type vxTicket struct{ off int64 }

func (h *vxHandle) WriteAt(p []byte, off int64) (int, error) {
	release := h.fs.orderWrite(off)
	defer release()
	h.fs.mutations++
	if h.fs.fail() {
		if h.fs.shortLen > 0 && h.fs.shortLen < len(p) {
			n, _ := h.f.WriteAt(p[:h.fs.shortLen], off)
			return n, nil
		}
		return 0, vxErrIO
	}
	if h.fs.record {
		cp := make([]byte, len(p))
		copy(cp, p)
		h.fs.log = append(h.fs.log, vxFSOp{kind: "write", name: h.name, off: off, data: cp})
	}
	return h.f.WriteAt(p, off)
}

func (h *vxHandle) Close() error { return h.f.Close() }

func (h *vxHandle) Stat() (os.FileInfo, error) {
	if h.fs.fail() {
		return nil, vxErrIO
	}
	return h.f.Stat()
}

func (h *vxHandle) Sync() error {
	if h.fs.fail() {
		return vxErrIO
	}
	if h.fs.record {
		h.fs.log = append(h.fs.log, vxFSOp{kind: "sync", name: h.name})
	}
	return h.f.Sync()
}

func (h *vxHandle) Truncate(size int64) error {
	h.fs.mutations++
	if h.fs.fail() {
		return vxErrIO
	}
	return h.f.Truncate(size)
}

// openFiles counts this process's file descriptors that point into the
// directory; liveRegions counts its memory mappings of files in it.
func (fs *vxFS) openFiles() int {
	n := 0
	fds, _ := ioutil.ReadDir("/proc/self/fd")
	for _, fd := range fds {
		t, err := os.Readlink(filepath.Join("/proc/self/fd", fd.Name()))
		if err == nil && strings.HasPrefix(t, fs.dir+"/") {
			n++
		}
	}
	return n
}

func (fs *vxFS) liveRegions() int {
	b, _ := ioutil.ReadFile("/proc/self/maps")
	n := 0
	for _, l := range strings.Split(string(b), "\n") {
		if strings.Contains(l, fs.dir+"/") {
			n++
		}
	}
	return n
}
