package moss

// In-memory model of the directory, files and memory mappings that moss
// touches (symbolic runs only). moss reaches it through the public
// StoreOptions.OpenFile hook and through the executor's redirects of
// ioutil.ReadDir, os.Remove, (*os.File).Stat, mmap.MapRegion and
// (*mmap.MMap).Unmap. It is a model of the OS: ReadAt returns n<len, io.EOF
// at end of file; WriteAt extends with zeros; unlinked files stay readable
// through open handles; a mapping is a private copy of an immutable file
// region that is poisoned on Unmap (use after unmap faults).

import (
	"errors"
	"io"
	"os"
	"sort"
	"time"

	"github.com/blevesearch/mmap-go"
)

type vxFSOp struct {
	kind string // create, write, sync, truncate, remove, close
	name string
	off  int64
	data []byte
	size int64
}

type vxFileData struct {
	name     string
	data     []byte
	osf      *os.File
	unlinked bool
	opens    int
}

type vxRegion struct {
	f    *vxFileData
	off  int64
	data []byte
	live bool
}

type vxFS struct {
	dir     string
	files   map[string]*vxFileData
	byOS    map[*os.File]*vxFileData
	regions []*vxRegion
	unlinked []*vxFileData
	log     []vxFSOp
	record  bool

	// fault injection: the failAt-th fallible operation (0-based, counted
	// from armFaults) fails; failLen > 0 makes a write short instead.
	nops     int
	failAt   int
	failN    int // number of consecutive failing operations
	shortLen int
	faulted  int

	readOnlyViolations []string
	mutations          int
}

var vxTheFS *vxFS

var vxErrIO = errors.New("vx: injected I/O error")
var vxErrNotExist = errors.New("vx: file does not exist")
var vxErrClosed = errors.New("vx: file already closed")
var vxErrPerm = errors.New("vx: permission denied")
var vxErrInvalid = errors.New("vx: invalid argument")

func vxNewFS() *vxFS {
	fs := &vxFS{dir: "/vxdir", files: map[string]*vxFileData{}, byOS: map[*os.File]*vxFileData{}, failAt: -1}
	vxTheFS = fs
	return fs
}

func (fs *vxFS) fail() bool {
	n := fs.nops
	fs.nops++
	if fs.failAt >= 0 && n >= fs.failAt && n < fs.failAt+fs.failN {
		fs.faulted++
		return true
	}
	return false
}

func (fs *vxFS) base(path string) string {
	p := fs.dir + "/"
	if len(path) > len(p) && path[:len(p)] == p {
		return path[len(p):]
	}
	return path
}

func (fs *vxFS) names() []string {
	var out []string
	for n, f := range fs.files {
		if !f.unlinked {
			out = append(out, n)
		}
	}
	sort.Strings(out)
	return out
}

func (fs *vxFS) openFile(path string, flag int, perm os.FileMode) (File, error) {
	if fs.fail() {
		return nil, vxErrIO
	}
	name := fs.base(path)
	f := fs.files[name]
	if f == nil || f.unlinked {
		if flag&os.O_CREATE == 0 {
			return nil, vxErrNotExist
		}
		f = &vxFileData{name: name, osf: &os.File{}}
		fs.files[name] = f
		fs.byOS[f.osf] = f
		fs.mutations++
		if fs.record {
			fs.log = append(fs.log, vxFSOp{kind: "create", name: name})
		}
	} else if flag&os.O_TRUNC != 0 {
		f.data = nil
		fs.mutations++
		if fs.record {
			fs.log = append(fs.log, vxFSOp{kind: "truncate", name: name, size: 0})
		}
	}
	if flag&(os.O_RDWR|os.O_WRONLY) != 0 {
		fs.readOnlyViolations = append(fs.readOnlyViolations, "open for writing: "+name)
	}
	f.opens++
	return &vxHandle{fs: fs, f: f, flag: flag}, nil
}

// addFile installs a file directly (junk files, crash images).
func (fs *vxFS) addFile(name string, data []byte) {
	f := &vxFileData{name: name, osf: &os.File{}, data: data}
	fs.files[name] = f
	fs.byOS[f.osf] = f
}

type vxHandle struct {
	fs     *vxFS
	f      *vxFileData
	flag   int
	closed bool
}

func (h *vxHandle) OsFile() *os.File { return h.f.osf }

func (h *vxHandle) ReadAt(p []byte, off int64) (int, error) {
	if h.closed {
		return 0, vxErrClosed
	}
	if h.fs.fail() {
		return 0, vxErrIO
	}
	if off >= int64(len(h.f.data)) {
		return 0, io.EOF
	}
	n := copy(p, h.f.data[off:])
	if n < len(p) {
		return n, io.EOF
	}
	return n, nil
}

func (h *vxHandle) WriteAt(p []byte, off int64) (int, error) {
	if h.closed {
		return 0, vxErrClosed
	}
	h.fs.mutations++
	if h.flag&(os.O_RDWR|os.O_WRONLY) == 0 {
		h.fs.readOnlyViolations = append(h.fs.readOnlyViolations, "write through read-only handle: "+h.f.name)
		return 0, vxErrPerm
	}
	if h.fs.fail() {
		if h.fs.shortLen > 0 && h.fs.shortLen < len(p) {
			p = p[:h.fs.shortLen]
			h.write(p, off)
			return len(p), nil // short write without error
		}
		return 0, vxErrIO
	}
	h.write(p, off)
	return len(p), nil
}

func (h *vxHandle) write(p []byte, off int64) {
	end := off + int64(len(p))
	// a zero-length write never extends the file: (*os.File).WriteAt issues
	// no pwrite at all for an empty slice (and pwrite(2) with count 0 leaves
	// the size alone), so the file does not grow to off
	if len(p) > 0 && end > int64(len(h.f.data)) {
		nd := make([]byte, end)
		copy(nd, h.f.data)
		h.f.data = nd
	}
	if len(p) > 0 {
		copy(h.f.data[off:], p)
	}
	if h.fs.record {
		cp := make([]byte, len(p))
		copy(cp, p)
		h.fs.log = append(h.fs.log, vxFSOp{kind: "write", name: h.f.name, off: off, data: cp})
	}
}

func (h *vxHandle) Close() error {
	if h.closed {
		return vxErrClosed
	}
	h.closed = true
	h.f.opens--
	return nil
}

func (h *vxHandle) Stat() (os.FileInfo, error) {
	if h.closed {
		return nil, vxErrClosed
	}
	if h.fs.fail() {
		return nil, vxErrIO
	}
	return vxInfo{h.f.name, int64(len(h.f.data))}, nil
}

func (h *vxHandle) Sync() error {
	if h.closed {
		return vxErrClosed
	}
	if h.fs.fail() {
		return vxErrIO
	}
	if h.fs.record {
		h.fs.log = append(h.fs.log, vxFSOp{kind: "sync", name: h.f.name})
	}
	return nil
}

func (h *vxHandle) Truncate(size int64) error {
	if h.closed {
		return vxErrClosed
	}
	h.fs.mutations++
	if h.fs.fail() {
		return vxErrIO
	}
	nd := make([]byte, size)
	copy(nd, h.f.data)
	h.f.data = nd
	if h.fs.record {
		h.fs.log = append(h.fs.log, vxFSOp{kind: "truncate", name: h.f.name, size: size})
	}
	return nil
}

type vxInfo struct {
	name string
	size int64
}

func (i vxInfo) Name() string       { return i.name }
func (i vxInfo) Size() int64        { return i.size }
func (i vxInfo) Mode() os.FileMode  { return 0600 }
func (i vxInfo) ModTime() time.Time { return time.Time{} }
func (i vxInfo) IsDir() bool        { return false }
func (i vxInfo) Sys() interface{}   { return nil }

// ---- redirect targets (see /verif/engine/interp/explore.go redirectNames)

func vxReadDir(dirname string) ([]os.FileInfo, error) {
	fs := vxTheFS
	var out []os.FileInfo
	for _, n := range fs.names() {
		out = append(out, vxInfo{n, int64(len(fs.files[n].data))})
	}
	return out, nil
}

func vxOsRemove(path string) error {
	fs := vxTheFS
	name := fs.base(path)
	f := fs.files[name]
	if f == nil || f.unlinked {
		return vxErrNotExist
	}
	fs.mutations++
	fs.readOnlyViolations = append(fs.readOnlyViolations, "remove: "+name)
	f.unlinked = true
	delete(fs.files, name)
	fs.unlinked = append(fs.unlinked, f)
	if fs.record {
		fs.log = append(fs.log, vxFSOp{kind: "remove", name: name})
	}
	return nil
}

// vxOsIsNotExist models os.IsNotExist for the errors of this file system.
func vxOsIsNotExist(err error) bool { return err == vxErrNotExist }

func vxOsFileStat(f *os.File) (os.FileInfo, error) {
	fd := vxTheFS.byOS[f]
	if fd == nil {
		return nil, vxErrInvalid
	}
	return vxInfo{fd.name, int64(len(fd.data))}, nil
}

func vxMapRegion(f *os.File, length int, prot, flags int, offset int64) (mmap.MMap, error) {
	fs := vxTheFS
	fd := fs.byOS[f]
	if fd == nil {
		return nil, vxErrInvalid
	}
	if fd.opens <= 0 {
		return nil, vxErrClosed
	}
	data := make([]byte, length)
	if offset < int64(len(fd.data)) {
		copy(data, fd.data[offset:])
	}
	if offset+int64(length) > int64(len(fd.data)) {
		// pages beyond end of file: touching them is a SIGBUS
		from := int64(len(fd.data)) - offset
		if from < 0 {
			from = 0
		}
		vxPoison(data[from:])
	}
	fs.regions = append(fs.regions, &vxRegion{f: fd, off: offset, data: data, live: true})
	return mmap.MMap(data), nil
}

func vxUnmap(m *mmap.MMap) error {
	fs := vxTheFS
	for _, r := range fs.regions {
		if !r.live || len(r.data) != len(*m) {
			continue
		}
		if len(r.data) > 0 && &r.data[0] != &(*m)[0] {
			continue
		}
		r.live = false
		vxPoison(r.data)
		*m = nil
		return nil
	}
	return errors.New("vx: unmap of unknown region")
}

// liveRegions / openFiles: the modelled resources that stand for the
// process's memory mappings and file descriptors.
func (fs *vxFS) liveRegions() int {
	n := 0
	for _, r := range fs.regions {
		if r.live {
			n++
		}
	}
	return n
}

func (fs *vxFS) openFiles() int {
	n := 0
	for _, f := range fs.files {
		n += f.opens
	}
	for _, f := range fs.unlinked {
		n += f.opens
	}
	return n
}

func (fs *vxFS) content(name string) []byte {
	if f := fs.files[name]; f != nil {
		return f.data
	}
	return nil
}
