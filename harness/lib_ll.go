package moss

import "errors"

// vxLL is an application-supplied lower level that follows the documented
// write-back protocol (see persister_test.go): iterate the higher snapshot
// with IncludeDeletions + SkipLowerLevel, resolve Merge entries with
// higher.Get, and store each round as a new sorted segment on top of the
// previous lower-level content.
type vxLL struct {
	opts    *CollectionOptions
	ss      *segmentStack
	fail    []bool // fail[i]: the i-th LowerLevelUpdate call fails
	calls   int
	ok      int
	lastErr bool
	stallAt int           // the stallAt-th call blocks until release is closed (-1: never)
	release chan struct{} // closed by the harness to let the stalled call go on
	stalled bool
	last    Snapshot // the higher snapshot offered by the previous call
	reoffer bool     // every call after a failed one offered the same snapshot
	rounds  [][]vxEnt
}

var vxErrLL = errors.New("vx: lower level update failed")

// vxLLSnap is the Snapshot handed back to moss; closing it releases nothing.
type vxLLSnap struct{ *segmentStack }

func (s vxLLSnap) Close() error { return nil }

func vxNewLL(opts *CollectionOptions) *vxLL {
	return &vxLL{opts: opts, ss: &segmentStack{options: opts, refs: 1}, reoffer: true, stallAt: -1, release: make(chan struct{})}
}

func (l *vxLL) snapshot() Snapshot { return vxLLSnap{l.ss} }

func (l *vxLL) update(higher Snapshot) (Snapshot, error) {
	n := l.calls
	l.calls++
	if l.lastErr && higher != l.last {
		l.reoffer = false
	}
	l.last = higher
	if n == l.stallAt {
		l.stalled = true
		<-l.release
		l.stalled = false
	}
	if n < len(l.fail) && l.fail[n] {
		l.lastErr = true
		return nil, vxErrLL
	}
	l.lastErr = false
	it, err := higher.StartIterator(nil, nil, IteratorOptions{IncludeDeletions: true, SkipLowerLevel: true})
	if err != nil {
		return nil, err
	}
	seg, _ := newSegment(4, 16)
	for {
		ex, k, v, err := it.CurrentEx()
		if err == ErrIteratorDone {
			break
		}
		if err != nil {
			return nil, err
		}
		op := ex.Operation
		if op == OperationMerge {
			v, err = higher.Get(k, ReadOptions{})
			if err != nil {
				return nil, err
			}
			if v == nil {
				op = OperationDel
			} else {
				op = OperationSet
			}
		}
		if err = seg.mutate(op, k, v); err != nil {
			return nil, err
		}
		if err = it.Next(); err != nil && err != ErrIteratorDone {
			return nil, err
		}
	}
	it.Close()
	ns := &segmentStack{options: l.opts, refs: 1}
	ns.a = append(ns.a, l.ss.a...)
	if seg.Len() > 0 {
		ns.a = append(ns.a, seg)
	}
	l.ss = ns
	l.ok++
	return vxLLSnap{ns}, nil
}
