package moss

// Shared harness library: symbolic keys/values/entries with symbolic
// lengths, construction of sorted immutable segments directly in their
// representation (kvs/buf), and an independent reference oracle written
// with the non-forking vx primitives. It shares no code with moss's binary
// searches, heaps or section chaining.

const vxKL = 2 // capacity of a symbolic key
const vxVL = 2 // capacity of a symbolic value
const vxFL = 6 // capacity of a folded (merge-appended) value

// vxKey is a byte string of symbolic length n <= vxKL.
type vxKey struct {
	b [vxKL]uint8
	n int
}

type vxVal struct {
	b [vxVL]uint8
	n int
}

// vxEnt is one operation of a segment.
type vxEnt struct {
	op uint64 // OperationSet / OperationDel / OperationMerge (symbolic)
	k  vxKey
	v  vxVal
}

// vxSymLen returns a symbolic length in [0, max].
func vxSymLen(max int) int {
	if max == 0 {
		return 0
	}
	n := int(vxU8())
	vxAssume(n <= max)
	return n
}

func vxNewKey(maxLen int) vxKey {
	var k vxKey
	for j := 0; j < vxKL; j++ {
		if j < maxLen {
			k.b[j] = vxU8()
		}
	}
	k.n = vxSymLen(maxLen)
	return k
}

func vxNewVal(maxLen int) vxVal {
	var v vxVal
	for j := 0; j < vxVL; j++ {
		if j < maxLen {
			v.b[j] = vxU8()
		}
	}
	v.n = vxSymLen(maxLen)
	return v
}

// vxKeyOf turns a concrete-length byte slice (possibly symbolic bytes)
// into a vxKey.
func vxKeyOf(b []byte) vxKey {
	var k vxKey
	k.n = len(b)
	for j := 0; j < len(b) && j < vxKL; j++ {
		k.b[j] = b[j]
	}
	return k
}

// vxKeyBytes materialises a key as []byte; this concretizes its length.
func vxKeyBytes(k vxKey) []byte {
	n := vxConcInt(k.n)
	out := make([]byte, n)
	for j := 0; j < n; j++ {
		out[j] = k.b[j]
	}
	return out
}

func vxValBytes(v vxVal) []byte {
	n := vxConcInt(v.n)
	out := make([]byte, n)
	for j := 0; j < n; j++ {
		out[j] = v.b[j]
	}
	return out
}

func vxKeyEq(a, b vxKey) bool {
	r := a.n == b.n
	for j := 0; j < vxKL; j++ {
		r = vxAnd(r, vxOr(j >= a.n, a.b[j] == b.b[j]))
	}
	return r
}

// vxKeyLess is bytewise lexicographic a < b.
func vxKeyLess(a, b vxKey) bool {
	res := false
	for j := vxKL - 1; j >= 0; j-- {
		aHas := j < a.n
		bHas := j < b.n
		res = vxIteBool(vxNot(aHas), bHas,
			vxIteBool(vxNot(bHas), false,
				vxIteBool(a.b[j] < b.b[j], true,
					vxIteBool(a.b[j] > b.b[j], false, res))))
	}
	return res
}

func vxKeyLE(a, b vxKey) bool { return vxNot(vxKeyLess(b, a)) }

// vxValIs: got (concrete length) equals the symbolic value v.
func vxValIs(got []byte, v vxVal) bool {
	r := len(got) == v.n
	for j := 0; j < len(got) && j < vxVL; j++ {
		r = vxAnd(r, got[j] == v.b[j])
	}
	if len(got) > vxVL {
		return false
	}
	return r
}

func vxIteVal(c bool, a, b vxVal) vxVal {
	var r vxVal
	for j := 0; j < vxVL; j++ {
		r.b[j] = vxIteU8(c, a.b[j], b.b[j])
	}
	r.n = vxIteInt(c, a.n, b.n)
	return r
}

// ---------------------------------------------------------------- segments

const vxStride = vxKL + vxVL

// vxOpsSetDel / vxOpsAll select the operation alphabet of a segment.
const (
	vxOpsSetDel = 0
	vxOpsAll    = 1
	vxOpsSet    = 2
)

func vxNewOp(alphabet int) uint64 {
	op := vxU64() & maskOperation
	switch alphabet {
	case vxOpsSet:
		vxAssume(op == OperationSet)
	case vxOpsSetDel:
		vxAssume(vxOr(op == OperationSet, op == OperationDel))
	default:
		vxAssume(vxOr(op == OperationSet, vxOr(op == OperationDel, op == OperationMerge)))
	}
	return op
}

// vxNewEnts creates n symbolic operations with strictly ascending keys
// (the representation invariant of a sorted segment with unique keys).
func vxNewEnts(n, kl, vl, alphabet int) []vxEnt {
	ents := make([]vxEnt, n)
	for i := range ents {
		ents[i].op = vxNewOp(alphabet)
		ents[i].k = vxNewKey(kl)
		ents[i].v = vxNewVal(vl)
		// a deletion carries no value
		vxAssume(vxOr(ents[i].op != OperationDel, ents[i].v.n == 0))
		if i > 0 {
			vxAssume(vxKeyLess(ents[i-1].k, ents[i].k))
		}
	}
	return ents
}

// vxBufByte is byte p of the key‖value encoding of e.
func vxBufByte(e vxEnt, p int) uint8 {
	var r uint8
	// value part: position p-kl for every possible kl
	for kl := 0; kl <= vxKL; kl++ {
		q := p - kl
		if q >= 0 && q < vxVL {
			r = vxIteU8(e.k.n == kl, e.v.b[q], r)
		}
	}
	if p < vxKL {
		r = vxIteU8(p < e.k.n, e.k.b[p], r)
	}
	return r
}

// vxSegOf builds the in-memory representation of a sorted segment holding
// exactly ents (kvs words + key/value bytes), with consistent counters.
func vxSegOf(ents []vxEnt) *segment {
	n := len(ents)
	seg := &segment{
		kvs: make([]uint64, 0, 2*n),
		buf: make([]byte, n*vxStride),
	}
	for i, e := range ents {
		for p := 0; p < vxStride; p++ {
			seg.buf[i*vxStride+p] = vxBufByte(e, p)
		}
		w := (maskOperation & e.op) | (uint64(e.k.n) << 32) | uint64(e.v.n)
		seg.kvs = append(seg.kvs, w, uint64(i*vxStride))
		seg.totOperationSet += vxIteU64(e.op == OperationSet, 1, 0)
		seg.totOperationDel += vxIteU64(e.op == OperationDel, 1, 0)
		seg.totOperationMerge += vxIteU64(e.op == OperationMerge, 1, 0)
		seg.totKeyByte += uint64(e.k.n)
		seg.totValByte += uint64(e.v.n)
	}
	return seg
}

// ---------------------------------------------------------------- oracle

// vxRef is the reference answer for one key.
type vxRef struct {
	found bool  // some operation for the key exists
	live  bool  // the newest operation leaves a value
	v     vxVal // that value (Set) when live
}

// vxRefGet scans all operations oldest-first (sections and segments are
// passed oldest first); the newest operation for K wins.
func vxRefGet(K vxKey, layers ...[]vxEnt) vxRef {
	var r vxRef
	for _, ents := range layers {
		for _, e := range ents {
			m := vxKeyEq(e.k, K)
			r.found = vxOr(r.found, m)
			r.live = vxIteBool(m, e.op == OperationSet, r.live)
			r.v = vxIteVal(m, e.v, r.v)
		}
	}
	return r
}

// vxGotIs: what a read returned (val, possibly nil) matches the reference:
// nil exactly when not live; otherwise a non-nil slice equal to the value.
func vxGotIs(got []byte, r vxRef) bool {
	if got == nil {
		return vxNot(r.live)
	}
	return vxAnd(r.live, vxValIs(got, r.v))
}

// vxNoLiveBetween: no live key strictly between lo and hi (either bound
// may be absent) within the optional range [start,end).
func vxNoLiveBetween(hasLo bool, lo vxKey, hasHi bool, hi vxKey, inRange func(vxKey) bool, layers ...[]vxEnt) bool {
	ok := true
	for _, ents := range layers {
		for _, e := range ents {
			between := inRange(e.k)
			if hasLo {
				between = vxAnd(between, vxKeyLess(lo, e.k))
			}
			if hasHi {
				between = vxAnd(between, vxKeyLess(e.k, hi))
			}
			ok = vxAnd(ok, vxImplies(between, vxNot(vxRefGet(e.k, layers...).live)))
		}
	}
	return ok
}

func vxAllKeys(vxKey) bool { return true }
