package moss

// Helpers for store-backed harnesses.

// vxDrain lets merger and persister run until nothing moves, with one
// extra merger cycle so that data left in mid is handed to the persister.
func vxDrain(c Collection) {
	vxQuiesce()
	c.(*collection).NotifyMerger("go", true)
	vxQuiesce()
}

// vxDirImage is a copy of the directory: names and contents.
type vxDirImage struct {
	names []string
	data  [][]byte
}

func (fs *vxFS) image() vxDirImage {
	var im vxDirImage
	for _, n := range fs.names() {
		im.names = append(im.names, n)
		d := fs.content(n)
		cp := make([]byte, len(d))
		copy(cp, d)
		im.data = append(im.data, cp)
	}
	return im
}

func (im vxDirImage) same(o vxDirImage) bool {
	if len(im.names) != len(o.names) {
		return false
	}
	for i := range im.names {
		if im.names[i] != o.names[i] || len(im.data[i]) != len(o.data[i]) {
			return false
		}
	}
	eq := true
	for i := range im.data {
		eq = vxAnd(eq, vxBytesEq(im.data[i], o.data[i]))
	}
	return eq
}

// vxPopulate opens a store-backed collection in fs, executes nb symbolic
// one-operation batches with a drain after each (so each becomes one
// persisted round), and closes everything. It returns the reference layers.
func vxPopulate(fs *vxFS, so StoreOptions, po StorePersistOptions, nb, kl, vl, alphabet int) [][]vxEnt {
	store, coll, err := OpenStoreCollection(fs.dir, so, po)
	vxAssert("populate-open-ok", err == nil)
	var layers [][]vxEnt
	for b := 0; b < nb; b++ {
		ents := vxNewBatchEnts(1, kl, vl, alphabet)
		vxExec(coll, ents)
		layers = append(layers, ents)
		vxDrain(coll)
	}
	coll.Close()
	store.Close()
	vxQuiesce()
	return layers
}
