package moss

// Helpers for store-backed harnesses.

// vxDrain lets merger and persister run until nothing moves. If dirty data
// is still left afterwards (e.g. a merge result sitting in mid because the
// persister was busy), one explicit merger cycle hands it down. No cycle is
// forced when everything is already persisted: an empty round would replace
// the clean section and hide what the last real round left there.
func vxDrain(c Collection) {
	vxQuiesce()
	cc := c.(*collection)
	isDirty := func() bool {
		cc.m.Lock()
		defer cc.m.Unlock()
		return (cc.stackDirtyTop != nil && !cc.stackDirtyTop.isEmpty()) ||
			(cc.stackDirtyMid != nil && !cc.stackDirtyMid.isEmpty()) ||
			(cc.stackDirtyBase != nil && !cc.stackDirtyBase.isEmpty())
	}
	tries := 2
	if !vxSymbolic() {
		tries = 100 // natively "quiesce" is a sleep: poll until persisted
	}
	for n := 0; n < tries && isDirty(); n++ {
		cc.NotifyMerger("go", true)
		vxQuiesce()
	}
}

// vxDirImage is a copy of the directory: names and contents.
type vxDirImage struct {
	names []string
	data  [][]byte
}

func (fs *vxFS) image() vxDirImage {
	var im vxDirImage
	for _, n := range fs.names() {
		im.names = append(im.names, n)
		d := fs.content(n)
		cp := make([]byte, len(d))
		copy(cp, d)
		im.data = append(im.data, cp)
	}
	return im
}

func (im vxDirImage) same(o vxDirImage) bool {
	if len(im.names) != len(o.names) {
		return false
	}
	for i := range im.names {
		if im.names[i] != o.names[i] || len(im.data[i]) != len(o.data[i]) {
			return false
		}
	}
	eq := true
	for i := range im.data {
		eq = vxAnd(eq, vxBytesEq(im.data[i], o.data[i]))
	}
	return eq
}

// vxPopulate opens a store-backed collection in fs, executes nb symbolic
// one-operation batches with a drain after each (so each becomes one
// persisted round), and closes everything. It returns the reference layers.
func vxPopulate(fs *vxFS, so StoreOptions, po StorePersistOptions, nb, kl, vl, alphabet int) [][]vxEnt {
	store, coll, err := OpenStoreCollection(fs.dir, so, po)
	vxAssert("populate-open-ok", err == nil)
	var layers [][]vxEnt
	for b := 0; b < nb; b++ {
		ents := vxNewBatchEnts(1, kl, vl, alphabet)
		vxExec(coll, ents)
		layers = append(layers, ents)
		vxDrain(coll)
	}
	coll.Close()
	store.Close()
	vxQuiesce()
	return layers
}
