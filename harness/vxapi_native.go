package moss

// Native twin of the harness API: the nondeterministic inputs come from a
// replay file written by vx (a solver model and the harness-level choice
// vector); assertions and observations are recorded and written out as JSON.

import (
	"bytes"
	"encoding/json"
	"fmt"
	"os"
	"runtime/debug"
	"sync"
	"testing"
	"time"
)

type vxReplayFile struct {
	Property string   `json:"property"`
	Harness  string   `json:"harness"`
	Tier     int      `json:"tier"`
	Model    []uint64 `json:"model"`
	Choices  []uint64 `json:"choices"`
	Known    []string `json:"known"`
}

type vxObsRecord struct {
	Label string
	Vals  []uint64
}

type vxNativeOut struct {
	Failed []string      `json:"failed"`
	Panic  string        `json:"panic"`
	Obs    []vxObsRecord `json:"observations"`
	Done   bool          `json:"done"`
}

var vxState struct {
	sync.Mutex
	rf      vxReplayFile
	symPos  int
	choPos  int
	out     vxNativeOut
	known   map[string]bool
	harness map[string]func()
}

func vxRegister(name string, f func()) {
	if vxState.harness == nil {
		vxState.harness = map[string]func(){}
	}
	vxState.harness[name] = f
}

func vxNext() uint64 {
	vxState.Lock()
	defer vxState.Unlock()
	var v uint64
	if vxState.symPos < len(vxState.rf.Model) {
		v = vxState.rf.Model[vxState.symPos]
	}
	vxState.symPos++
	return v
}

func vxU8() uint8   { return uint8(vxNext()) }
func vxU16() uint16 { return uint16(vxNext()) }
func vxU32() uint32 { return uint32(vxNext()) }
func vxU64() uint64 { return vxNext() }
func vxInt() int    { return int(vxNext()) }
func vxI64() int64  { return int64(vxNext()) }
func vxBool() bool  { return vxNext() != 0 }
func vxBytes(n int) []byte {
	b := make([]byte, n)
	for i := range b {
		b[i] = vxU8()
	}
	return b
}

type vxDiscard struct{}

func vxAssume(c bool) {
	if !c {
		panic(vxDiscard{})
	}
}

func vxAssert(label string, c bool) {
	if !c {
		vxState.Lock()
		vxState.out.Failed = append(vxState.out.Failed, label)
		vxState.Unlock()
		panic(vxDiscard{}) // the executor ends the path at the first violation too
	}
}

func vxAssertK(label string, c bool, knownID string, excuse bool) {
	if c {
		return
	}
	if vxState.known[knownID] && excuse {
		panic(vxDiscard{})
	}
	vxAssert(label, c)
}

func vxChoose(n int) int {
	vxState.Lock()
	defer vxState.Unlock()
	var v uint64
	if vxState.choPos < len(vxState.rf.Choices) {
		v = vxState.rf.Choices[vxState.choPos]
	}
	vxState.choPos++
	if n <= 1 {
		// the executor does not record a decision for n <= 1
		vxState.choPos--
		return 0
	}
	return int(v)
}

func vxAnd(a, b bool) bool     { return a && b }
func vxOr(a, b bool) bool      { return a || b }
func vxNot(a bool) bool        { return !a }
func vxImplies(a, b bool) bool { return !a || b }
func vxIteU8(c bool, a, b uint8) uint8 {
	if c {
		return a
	}
	return b
}
func vxIteU64(c bool, a, b uint64) uint64 {
	if c {
		return a
	}
	return b
}
func vxIteInt(c bool, a, b int) int {
	if c {
		return a
	}
	return b
}
func vxIteBool(c bool, a, b bool) bool {
	if c {
		return a
	}
	return b
}
func vxBytesEq(a, b []byte) bool { return bytes.Equal(a, b) }
func vxBytesCmp(a, b []byte) int { return bytes.Compare(a, b) }

func vxObs(label string, vals ...uint64) {
	vxState.Lock()
	vxState.out.Obs = append(vxState.out.Obs, vxObsRecord{label, vals})
	vxState.Unlock()
}
func vxObserveInt(label string, v int)    { vxObs(label, uint64(v)) }
func vxObserveU64(label string, v uint64) { vxObs(label, v) }
func vxObserveBool(label string, v bool) {
	if v {
		vxObs(label, 1)
	} else {
		vxObs(label, 0)
	}
}
func vxObserveBytes(label string, b []byte) {
	vals := []uint64{uint64(len(b))}
	if b == nil {
		vals[0] = ^uint64(0)
	}
	for _, x := range b {
		vals = append(vals, uint64(x))
	}
	vxObs(label, vals...)
}

// vxQuiesce: natively there is no scheduler to ask; give the background
// goroutines time to block.
func vxQuiesce()           { time.Sleep(vxQuiesceDur()) }
func vxYield()             { time.Sleep(time.Millisecond) }

// vxQuiesceDur: how long "wait until the background goroutines are idle"
// sleeps natively; the driver retries a disagreeing replay with a longer
// value (VX_QUIESCE_MS) before it reports a mismatch.
func vxQuiesceDur() time.Duration {
	if v := os.Getenv("VX_QUIESCE_MS"); v != "" {
		n := 0
		for _, c := range v {
			if c >= '0' && c <= '9' {
				n = n*10 + int(c-'0')
			}
		}
		if n > 0 {
			return time.Duration(n) * time.Millisecond
		}
	}
	return 60 * time.Millisecond
}
func vxReach(label string) {}
func vxSymbolic() bool     { return false }
func vxTier() int          { return vxState.rf.Tier }
func vxKnown(id string) bool {
	return vxState.known[id]
}
func vxConcInt(x int) int { return x }
func vxPoison(b []byte)   {}
func vxLog(msg string)    { fmt.Fprintln(os.Stderr, "vx:", msg) }

func TestVxReplay(t *testing.T) {
	path := os.Getenv("VX_REPLAY")
	if path == "" {
		t.Skip("VX_REPLAY not set")
	}
	b, err := os.ReadFile(path)
	if err != nil {
		t.Fatal(err)
	}
	if err := json.Unmarshal(b, &vxState.rf); err != nil {
		t.Fatal(err)
	}
	vxState.known = map[string]bool{}
	if kb, err := os.ReadFile(os.Getenv("VX_KNOWN")); err == nil {
		var k struct {
			Findings []struct {
				ID     string `json:"id"`
				Status string `json:"status"`
			} `json:"findings"`
		}
		if json.Unmarshal(kb, &k) == nil {
			for _, f := range k.Findings {
				if f.Status == "open" {
					vxState.known[f.ID] = true
				}
			}
		}
	}
	h := vxState.harness[vxState.rf.Harness]
	if h == nil {
		t.Fatalf("harness %q not registered", vxState.rf.Harness)
	}
	done := make(chan struct{})
	go func() {
		defer close(done)
		defer func() {
			if r := recover(); r != nil {
				if _, ok := r.(vxDiscard); !ok {
					vxState.Lock()
					vxState.out.Panic = fmt.Sprintf("%v\n%s", r, debug.Stack())
					vxState.Unlock()
				}
			}
		}()
		h()
	}()
	select {
	case <-done:
		vxState.out.Done = true
	case <-time.After(60 * time.Second):
		vxState.out.Done = false
	}
	vxNativeCleanup()
	vxState.Lock()
	ob, _ := json.Marshal(vxState.out)
	vxState.Unlock()
	if out := os.Getenv("VX_NATIVE_OUT"); out != "" {
		os.WriteFile(out, ob, 0644)
	}
	t.Logf("%s", ob)
}
