package moss

// Symbolic twin of the harness API: bodyless declarations that the vx
// executor intercepts (see /verif/engine/interp/external.go).

func vxU8() uint8
func vxU16() uint16
func vxU32() uint32
func vxU64() uint64
func vxInt() int
func vxI64() int64
func vxBool() bool
func vxBytes(n int) []byte
func vxAssume(c bool)
func vxAssert(label string, c bool)
func vxAssertK(label string, c bool, knownID string, excuse bool)
func vxChoose(n int) int
func vxAnd(a, b bool) bool
func vxOr(a, b bool) bool
func vxNot(a bool) bool
func vxImplies(a, b bool) bool
func vxIteU8(c bool, a, b uint8) uint8
func vxIteU64(c bool, a, b uint64) uint64
func vxIteInt(c bool, a, b int) int
func vxIteBool(c bool, a, b bool) bool
func vxBytesEq(a, b []byte) bool
func vxBytesCmp(a, b []byte) int
func vxObserveInt(label string, v int)
func vxObserveU64(label string, v uint64)
func vxObserveBool(label string, v bool)
func vxObserveBytes(label string, b []byte)
func vxQuiesce()
func vxYield()
func vxReach(label string)
func vxSymbolic() bool
func vxTier() int
func vxKnown(id string) bool
func vxConcInt(x int) int
func vxPoison(b []byte)
func vxLog(msg string)

// vxRegister is only meaningful in the native twin.
func vxRegister(name string, f func()) {}
