#!/usr/bin/env python3
"""Regenerates MANIFEST.json from harness/registry.json + manifest_meta.json."""
import json, os
V = os.path.dirname(os.path.abspath(__file__))
reg = json.load(open(os.path.join(V, 'harness', 'registry.json')))
meta = json.load(open(os.path.join(V, 'manifest_meta.json')))
props = [json.loads(l) for l in open(os.path.join(V, 'properties.jsonl'))]
ENV = 'GOFLAGS=-mod=mod GOPROXY=off GOSUMDB=off GOTOOLCHAIN=local'
checks = []
na = []
for p in props:
    pid = p['id']
    m = meta['properties'].get(pid, {})
    if pid in reg and not m.get('not_applicable'):
        checks.append({
            'property_id': pid,
            'quick_cmd': f'{ENV} /verif/bin/vx check {pid} -tier quick',
            'thorough_cmd': f'{ENV} /verif/bin/vx check {pid} -tier thorough',
            'evidence_file': f'/verif/evidence/{pid}.json',
            'replay_cmd_template': f'{ENV} /verif/bin/vx replay {{path}}',
            'engine': 'vx',
            'level_claimed': {
                'category': 'model_checking',
                'text': m.get('level_text', ''),
                'design_ref': m.get('design_ref', 'DESIGN.md §4 ' + pid),
            },
            'level_note': m.get('level_note', ''),
            'technique': m.get('technique', 'bounded symbolic execution of the real Go SSA (vx) with z3 deciding every branch and assertion'),
        })
    else:
        na.append({'property_id': pid, 'reason': m.get('not_applicable', 'no check registered yet')})
man = {
    'version': 1,
    'setup_cmd': f'cd /verif/engine && {ENV} go build -o /verif/bin/vx ./cmd/vx',
    'hooks': meta['hooks'],
    'engines': [{
        'name': 'vx', 'path': '/verif/engine',
        'serves_properties': [c['property_id'] for c in checks],
        'kind_free_text': 'own symbolic executor over go/ssa of /repo (reloaded every run) emitting SMT-LIB2 bit-vector queries to z3; DFS by re-execution; native replay of models',
    }],
    'checks': checks,
    'not_applicable': na,
    'notes': meta.get('notes', ''),
}
json.dump(man, open(os.path.join(V, 'MANIFEST.json'), 'w'), indent=1)
print('checks:', [c['property_id'] for c in checks])
print('not_applicable:', [n['property_id'] for n in na])
