#!/bin/bash
# Runs every registered check once (tier from $1, default quick) and prints one line each.
tier=${1:-quick}
export GOFLAGS=-mod=mod GOPROXY=off GOSUMDB=off GOTOOLCHAIN=local
for p in C01 C02 C03 C04 C05 C06 C07 C08 C09 C10 C11 C12 C13 C14 C15 C16 C17 C18 C19 C20; do
  s=$(date +%s)
  out=$(timeout 7200 /verif/bin/vx check $p -tier $tier 2>&1); rc=$?
  e=$(( $(date +%s) - s ))
  echo "$p exit=$rc ${e}s $(echo "$out" | grep -E '^OK|^VIOLATION|^INCONCLUSIVE' | head -2 | cut -c1-160 | tr '\n' ' ')$(echo "$out" | grep -c '^KNOWN-FINDING') known"
done
