#!/usr/bin/env python3
"""Confirm a seeded defect delivered by a sub-agent and run our checks against it.

usage: tools_seed_eval.py <PROP> <A|B> [--checks C01,C10] [--tier quick] [--skip-confirm]

 1. in a scratch worktree of /repo: apply the patch, build, run the whole
    suite (must pass), run the demo (must fail), revert, run the demo (must pass)
 2. apply the patch to /repo, run `vx check` for the property (and any extra
    ones), undo the patch straight afterwards
 3. keep patch, demo and meta.json under /verif/seeded/<PROP>-<A|B>/
"""
import json, os, shutil, subprocess, sys, time

ENV = dict(os.environ, GOFLAGS='-mod=mod', GOPROXY='off', GOSUMDB='off', GOTOOLCHAIN='local')


def run(cmd, cwd=None, timeout=1800):
    t0 = time.time()
    try:
        p = subprocess.run(cmd, cwd=cwd, env=ENV, shell=True, capture_output=True, text=True, timeout=timeout)
        return p.returncode, (p.stdout + p.stderr), time.time() - t0
    except subprocess.TimeoutExpired as e:
        return 124, 'TIMEOUT ' + str(e), time.time() - t0


def main():
    prop, which = sys.argv[1], sys.argv[2]
    args = sys.argv[3:]
    checks = [prop]
    tier = 'quick'
    skip = '--skip-confirm' in args
    for i, a in enumerate(args):
        if a == '--checks':
            checks = args[i + 1].split(',')
        if a == '--tier':
            tier = args[i + 1]
    srcroot = '/tmp/seed'
    suffix = ''
    for i, a in enumerate(args):
        if a == '--src':
            srcroot = args[i + 1]
        if a == '--suffix':
            suffix = '-' + args[i + 1]
    src = f'{srcroot}/{prop}/_out'
    out = f'/verif/seeded/{prop}-{which}{suffix}'
    os.makedirs(out, exist_ok=True)
    patch = f'{src}/{which}.patch.diff'
    demo = f'{src}/{which}_demo_test.go'
    if os.path.exists(patch):
        meta = json.load(open(f'{src}/{which}.meta.json'))
        shutil.copy(patch, f'{out}/patch.diff')
        shutil.copy(demo, f'{out}/demo_test.go')
    else:
        # the agent's scratch directory is gone: use the kept copy
        meta = json.load(open(f'{out}/meta.json'))
        meta.setdefault('ran', meta.get('agent_ran'))
    patch = f'{out}/patch.diff'
    demo = f'{out}/demo_test.go'
    res = {'property': prop, 'summary': meta.get('summary'), 'needs': meta.get('needs'), 'agent_ran': meta.get('ran'), 'ran': []}
    if skip and os.path.exists(f'{out}/meta.json'):
        try:
            prev = json.load(open(f'{out}/meta.json'))
            for k in ('confirmed', 'suite_passes_with_change', 'demo_fails_with_change', 'demo_passes_without_change', 'ran', 'history', 'why'):
                if k in prev:
                    res[k] = prev[k]
            res.setdefault('history', []).append({'checks': prev.get('checks')})
        except Exception:
            pass

    if not skip:
        wt = f'/tmp/seedchk_{prop}_{which}{suffix}'
        run(f'git -C /repo worktree remove --force {wt}')
        rc, o, _ = run(f'git -C /repo worktree add -q {wt} HEAD')
        try:
            rc, o, _ = run(f'git apply {patch}', cwd=wt)
            res['ran'].append({'cmd': 'git apply patch.diff (scratch worktree)', 'rc': rc})
            if rc != 0:
                res['confirmed'] = False
                res['why'] = 'patch does not apply: ' + o[-400:]
                return finish(res, out)
            # the baseline suite has load-dependent flakes (TestStoreCompactionDeletions /
            # TestStoreNilValue: "expected reopen store to work", also on the unmodified
            # tree): up to three attempts, one clean pass counts
            suite_ok = False
            for attempt in range(3):
                rc, o, t = run('go build ./... && go test -vet=off -count=1 -timeout 20m ./...', cwd=wt)
                res['ran'].append({'cmd': 'go build ./... && go test -vet=off -count=1 ./...  (with the change), attempt %d' % (attempt + 1), 'rc': rc, 'tail': o[-300:], 's': round(t)})
                if rc == 0:
                    suite_ok = True
                    break
            shutil.copy(demo, f'{wt}/zz_seed_demo_{which}_test.go')
            rc, o, t = run(f'go test -vet=off -count=1 -run TestSeedDemo{which} .', cwd=wt, timeout=600)
            res['ran'].append({'cmd': f'go test -run TestSeedDemo{which} (with the change)', 'rc': rc, 'tail': o[-400:], 's': round(t)})
            demo_fails = rc != 0
            run(f'git apply -R {patch}', cwd=wt)
            rc, o, t = run(f'go test -vet=off -count=1 -run TestSeedDemo{which} .', cwd=wt, timeout=600)
            res['ran'].append({'cmd': f'go test -run TestSeedDemo{which} (without the change)', 'rc': rc, 'tail': o[-300:], 's': round(t)})
            demo_passes = rc == 0
            res['confirmed'] = bool(suite_ok and demo_fails and demo_passes)
            res['suite_passes_with_change'] = suite_ok
            res['demo_fails_with_change'] = demo_fails
            res['demo_passes_without_change'] = demo_passes
        finally:
            run(f'git -C /repo worktree remove --force {wt}')
            shutil.rmtree(wt, ignore_errors=True)

    if '--only-confirm' in args:
        return finish(res, out)
    # our checks against the mutant
    inplace = '--in-repo' in args
    if inplace:
        target = '/repo'
        rc, o, _ = run(f'git -C /repo apply {patch}')
    else:
        target = f'/tmp/seedrun_{prop}_{which}{suffix}'
        run(f'git -C /repo worktree remove --force {target}')
        run(f'git -C /repo worktree add -q {target} HEAD')
        rc, o, _ = run(f'git apply {patch}', cwd=target)
    if rc != 0:
        res['checks'] = {'error': 'patch does not apply: ' + o[-300:]}
        return finish(res, out)
    res['checks'] = {}
    res['checks_run_against'] = target
    try:
        for c in checks:
            od = '' if inplace else f'VX_OUT_DIR=/tmp/seedout_{prop}_{which}{suffix} '
            rc, o, t = run(f'{od}VERIF_REPO={target} /verif/bin/vx check {c} -tier {tier}', cwd='/verif', timeout=3600)
            lines = [l for l in o.splitlines() if l.startswith(('VIOLATION', 'OK ', 'INCONCLUSIVE', 'KNOWN', '  violation', '  panic', '  deadlock'))]
            res['checks'][c] = {'tier': tier, 'exit': rc, 'detected': rc == 1, 's': round(t), 'lines': lines[:8]}
    finally:
        if inplace:
            run('git -C /repo checkout -- .')
        else:
            run(f'git -C /repo worktree remove --force {target}')
            shutil.rmtree(target, ignore_errors=True)
            shutil.rmtree(f'/tmp/seedout_{prop}_{which}{suffix}', ignore_errors=True)
    return finish(res, out)


def finish(res, out):
    json.dump(res, open(f'{out}/meta.json', 'w'), indent=1)
    print(json.dumps({k: res.get(k) for k in ('property', 'summary', 'confirmed', 'checks')}, indent=1)[:3000])


if __name__ == '__main__':
    main()
