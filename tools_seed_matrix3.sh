#!/bin/bash
# Round 3: evaluates seeds delivered under /tmp/seed3 (kept as /verif/seeded/<ID>-<A|B>-r3).
# usage: tools_seed_matrix3.sh "C01 A" "C01 B" ...
declare -A CH=(
 [C01-A]="C01,C13" [C01-B]="C01,C10" [C02-A]="C02,C15" [C02-B]="C02,C15" [C03-A]="C03" [C03-B]="C03,C13"
 [C04-A]="C04,C11" [C04-B]="C04,C07" [C05-A]="C05" [C05-B]="C05" [C06-A]="C06" [C06-B]="C06"
 [C07-A]="C07,C11" [C07-B]="C07" [C08-A]="C08" [C08-B]="C08" [C09-A]="C09" [C09-B]="C09"
 [C10-A]="C10,C08" [C10-B]="C10,C19" [C11-A]="C11" [C11-B]="C11" [C12-A]="C12" [C12-B]="C12,C05"
 [C13-A]="C13" [C13-B]="C13,C01" [C14-A]="C14" [C14-B]="C14" [C15-A]="C15,C02" [C15-B]="C15,C02"
 [C16-A]="C16" [C16-B]="C16" [C17-A]="C17" [C17-B]="C17" [C18-A]="C18" [C18-B]="C18"
 [C19-A]="C19" [C19-B]="C19" [C20-A]="C20,C13" [C20-B]="C20,C04"
)
for x in "$@"; do
  set -- $x; p=$1; w=$2; k=$p-$w
  [ -f /tmp/seed3/$p/_out/$w.patch.diff ] || [ -f /verif/seeded/$k-r3/patch.diff ] || { echo "missing $k"; continue; }
  timeout 7200 python3 /verif/tools_seed_eval.py $p $w --src /tmp/seed3 --suffix r3 --checks ${CH[$k]} > /tmp/seedmatrix3_$k.log 2>&1
done
