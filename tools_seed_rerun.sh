#!/bin/bash
# Re-runs the quick check of the seed's own property (plus extra checks given
# as PROP-W[-r2]=C17,...) against every kept seed, LANES at a time.
# usage: tools_seed_rerun.sh [lanes] [pattern]
lanes=${1:-4}; pat=${2:-.}
declare -A EXTRA=( [C03-B-r2]="C17" )
ls /verif/seeded | grep -E '^C[0-9]+-[AB](-r[23])?$' | grep -E "$pat" | while read d; do
  p=${d%%-*}; rest=${d#*-}; w=${rest%%-*}; sfx=""
  [[ $d == *-r2 ]] && sfx="--suffix r2"
  [[ $d == *-r3 ]] && sfx="--suffix r3"
  ch=$p; [ -n "${EXTRA[$d]}" ] && ch="$p,${EXTRA[$d]}"
  echo "$p $w --skip-confirm $sfx --checks $ch"
done | xargs -P $lanes -L 1 sh -c 'timeout 5400 python3 /verif/tools_seed_eval.py "$0" "$@" > /tmp/seedrerun_$0_$1_$3.log 2>&1' 
echo RERUN-DONE
