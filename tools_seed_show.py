#!/usr/bin/env python3
"""Print one line per kept seed: confirmation flags and which checks detected it."""
import json, os, sys
root = '/verif/seeded'
pat = sys.argv[1] if len(sys.argv) > 1 else ''
for d in sorted(os.listdir(root)):
    p = f'{root}/{d}/meta.json'
    if pat not in d or not os.path.exists(p):
        continue
    m = json.load(open(p))
    ch = m.get('checks') or {}
    parts = []
    for c, v in ch.items():
        if isinstance(v, dict):
            parts.append(f"{c}:{'HIT' if v.get('detected') else 'miss(exit %s)' % v.get('exit')}/{v.get('s')}s")
        else:
            parts.append(f'{c}:{v}')
    print(d, 'confirmed' if m.get('confirmed') else 'UNCONFIRMED(%s,%s,%s)' % (m.get('suite_passes_with_change'), m.get('demo_fails_with_change'), m.get('demo_passes_without_change')), ' '.join(parts))
