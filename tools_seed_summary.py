#!/usr/bin/env python3
"""Writes seeded/SUMMARY.md and patches the table into DESIGN.md from seeded/*/meta.json."""
import json, os, glob, re
rows = []
for d in sorted(glob.glob('/verif/seeded/*/meta.json')):
    j = json.load(open(d))
    name = os.path.basename(os.path.dirname(d))
    ch = j.get('checks') or {}
    det = [k for k, v in ch.items() if isinstance(v, dict) and v.get('detected')]
    inc = [k for k, v in ch.items() if isinstance(v, dict) and v.get('exit') == 2]
    miss = [k for k, v in ch.items() if isinstance(v, dict) and v.get('exit') == 0]
    tier = next((v.get('tier') for v in ch.values() if isinstance(v, dict)), '')
    rows.append((name, j.get('confirmed'), (j.get('summary') or '').replace('|', '/').replace('\n', ' ')[:200], det, inc, miss, tier, ch.get('error', '')))
lines = ['| Seed | Confirmed | Change | Caught by | Inconclusive | Not caught by |', '|---|---|---|---|---|---|']
for n, c, s, det, inc, miss, tier, err in rows:
    lines.append(f"| {n} | {'yes' if c else 'no'} | {s} | {', '.join(det) or '—'} | {', '.join(inc) or ''} | {', '.join(miss) or ('patch does not apply' if err else '')} |")
ndet = sum(1 for r in rows if r[3])
txt = f"Seeded changes: {len(rows)}; caught by at least one registered check ({rows[0][6] if rows else ''} tier): {ndet}.\n\n" + '\n'.join(lines) + '\n'
open('/verif/seeded/SUMMARY.md', 'w').write('# Seeded changes and the checks that catch them\n\n' + txt)
d = open('/verif/DESIGN.md').read()
if 'SEED_TABLE_PLACEHOLDER' in d:
    d = d.replace('SEED_TABLE_PLACEHOLDER', '<!-- seed-table -->\n' + txt + '<!-- /seed-table -->')
else:
    d = re.sub(r'<!-- seed-table -->.*<!-- /seed-table -->', lambda m: '<!-- seed-table -->\n' + txt + '<!-- /seed-table -->', d, flags=re.S)
open('/verif/DESIGN.md', 'w').write(d)
print(txt[:200])
