#!/usr/bin/env python3
"""Writes seeded/SUMMARY.md and patches the table into DESIGN.md from seeded/*/meta.json.

Per seed: the result of the latest run of each check (the newest run is in `checks`,
earlier runs of other checks are kept under `history`)."""
import json, os, glob, re
rows = []
for d in sorted(glob.glob('/verif/seeded/C*/meta.json')):
    j = json.load(open(d))
    name = os.path.basename(os.path.dirname(d))
    prop = name.split('-')[0]
    latest = {}
    for h in (j.get('history') or []):
        for k, v in ((h or {}).get('checks') or {}).items():
            if isinstance(v, dict):
                latest[k] = v
    for k, v in (j.get('checks') or {}).items():
        if isinstance(v, dict):
            latest[k] = v
    own = latest.get(prop)
    own_s = '—'
    if own:
        own_s = 'caught' if own.get('detected') else ('inconclusive' if own.get('exit') == 2 else 'MISSED')
    others = [k for k, v in latest.items() if k != prop and v.get('detected')]
    rows.append((name, ('r2' if name.endswith('-r2') else 'r3' if name.endswith('-r3') else 'r1'), j.get('confirmed'), (j.get('summary') or '').replace('|', '/').replace('\n', ' ')[:160], own_s, others, bool(own and own.get('detected')) or bool(others)))
lines = ['| Seed | Round | Confirmed | Change | Check of its own property | Other checks that catch it |', '|---|---|---|---|---|---|']
for n, r, c, s, own, others, _ in rows:
    lines.append(f"| {n} | {r} | {'yes' if c else 'no'} | {s} | {own} | {', '.join(sorted(others))} |")
def cnt(r, f):
    return sum(1 for x in rows if x[1] == r and f(x))
txt = ''
for r in ('r1', 'r2', 'r3'):
    if not cnt(r, lambda x: True):
        continue
    txt += (f"Round {r[1]}: {cnt(r, lambda x: True)} seeded changes, {cnt(r, lambda x: x[2])} confirmed; caught by the quick check of their own property: "
            f"{cnt(r, lambda x: x[4] == 'caught')}; caught by at least one quick check: {cnt(r, lambda x: x[6])}.\n")
txt += '\n' + '\n'.join(lines) + '\n'
open('/verif/seeded/SUMMARY.md', 'w').write('# Seeded changes and the checks that catch them\n\n' + txt)
d = open('/verif/DESIGN.md').read()
d = re.sub(r'<!-- seed-table -->.*<!-- /seed-table -->', lambda m: '<!-- seed-table -->\n' + txt + '<!-- /seed-table -->', d, flags=re.S)
open('/verif/DESIGN.md', 'w').write(d)
print(txt[:400])
