#!/bin/bash
# usage: tools_seed_try.sh <PROP> <A|B> <harness> [vx run flags...]
p=$1; w=$2; h=$3; shift 3
wt=/tmp/seedtry_${p}_${w}_$$
git -C /repo worktree add -q $wt HEAD && (cd $wt && git apply /verif/seeded/$p-$w${SFX}/patch.diff) || { echo "patch does not apply"; git -C /repo worktree remove --force $wt; exit 3; }
VERIF_REPO=$wt timeout 1500 /verif/bin/vx run $h "$@" 2>&1 | grep -E "^paths|race analysis|VIOLATION|DEADLOCK|PANIC|INCONC" | head -4
git -C /repo worktree remove --force $wt
